package rules

// R-ORDER: within-function ordering / dominance rules with named instances
// (DESIGN.md section 3). Every instance is anchored on an exported API
// function or on a function discovered from one by call structure.

import (
	"fmt"
	"go/constant"
	"go/token"
	"go/types"
	"strings"

	"gmcheck/core"

	"golang.org/x/tools/go/ssa"
)

func (c *Ctx) ordOb(key, want string, fn *ssa.Function) core.Ob {
	o := core.Ob{Rule: "R-ORDER", Key: key, Want: want, Armed: true, Status: core.OK}
	if fn != nil {
		o.Pos = c.P.Pos(fn.Pos())
		o.Func = core.FnName(fn)
	}
	return o
}

func missingFn(key, name string) core.Ob {
	return core.Ob{Rule: "R-ORDER", Key: key, Armed: true, Status: core.Violated, Want: "anchor function " + name + " exists", Got: "not found (renamed/removed): re-confirm the instance"}
}

// callsIn lists call instructions of fn (incl. defers) whose callee name
// satisfies pred.
func callsIn(fn *ssa.Function, pred func(name string, cc *ssa.CallCommon) bool) []ssa.CallInstruction {
	var out []ssa.CallInstruction
	for _, b := range fn.Blocks {
		for _, in := range b.Instrs {
			if ci, ok := in.(ssa.CallInstruction); ok {
				if pred(calleeName(ci.Common()), ci.Common()) {
					out = append(out, ci)
				}
			}
		}
	}
	return out
}

// ------------------------------------------------------------------ C19: sort

var stableSorts = map[string]bool{"sort.SliceStable": true, "sort.Stable": true, "slices.SortStableFunc": true}
var unstableSorts = map[string]bool{"sort.Slice": true, "sort.Sort": true, "slices.SortFunc": true, "slices.Sort": true}

// HandlerSort: every sort reachable from Events.AddListener / AddGeneric is a
// stable sort with a strict descending comparator on Priority.
func (c *Ctx) HandlerSort() []core.Ob {
	var obs []core.Ob
	roots := []string{"bot.(*Events).AddListener", "bot.(*Events).AddGeneric"}
	var rs []*ssa.Function
	for _, n := range roots {
		f := c.Fn(n)
		if f == nil {
			obs = append(obs, missingFn("handler-sort:"+n, n))
			continue
		}
		rs = append(rs, f)
	}
	reach := c.Reach(rs, func(g *ssa.Function) bool { return inPkgs(g, "bot") })
	nSorts := 0
	seen := map[*ssa.Function]bool{}
	for f := range reach {
		f = core.Origin(f)
		if seen[f] {
			continue
		}
		seen[f] = true
		for _, ci := range callsIn(f, func(n string, _ *ssa.CallCommon) bool {
			// generic instantiations carry type arguments in the name
			base := n
			if i := strings.Index(base, "["); i >= 0 {
				base = base[:i]
			}
			return stableSorts[base] || unstableSorts[base]
		}) {
			nSorts++
			name := calleeName(ci.Common())
			if i := strings.Index(name, "["); i >= 0 {
				name = name[:i]
			}
			o := c.ordOb(fmt.Sprintf("handler-sort:%s#%d", core.FnName(f), nSorts), "packet handlers are ordered with a stable sort and a strict descending comparison of Priority (registration order breaks ties)", f)
			o.Pos = c.P.Pos(ci.Pos())
			if !stableSorts[name] {
				o.Status, o.Got = core.Violated, name+" is not stable: handlers of equal priority may be reordered (invisible below 13 elements)"
			} else if why := descendingPriority(ci.Common()); why != "" {
				o.Status, o.Got = core.Violated, why
			} else {
				o.Got = name + " with less(i,j) = Priority[i] > Priority[j]"
			}
			obs = append(obs, o)
		}
	}
	// the other way to keep a table ordered: find the place of the new handler by binary search and
	// insert it there. sort.Search returns the first index whose predicate holds; the new handler
	// goes behind every handler of a higher OR EQUAL priority exactly when the predicate is the
	// strict "element's priority < new priority".
	seen = map[*ssa.Function]bool{}
	for f := range reach {
		f = core.Origin(f)
		if seen[f] {
			continue
		}
		seen[f] = true
		for _, ci := range callsIn(f, func(n string, _ *ssa.CallCommon) bool { return n == "sort.Search" }) {
			nSorts++
			o := c.ordOb(fmt.Sprintf("handler-sort:%s#%d", core.FnName(f), nSorts), "a handler is inserted behind every registered handler of a higher or equal priority (registration order breaks ties)", f)
			o.Pos = c.P.Pos(ci.Pos())
			if why := searchBehindEqual(ci.Common()); why != "" {
				o.Status, o.Got = core.Violated, why
			} else {
				o.Got = "sort.Search with pred(i) = Priority[i] < new Priority"
			}
			obs = append(obs, o)
		}
	}
	// ... on every path: where a handler is appended to a table, the sort follows before the function
	// returns, whatever the priorities are (a sort that is skipped "when all priorities are the default"
	// leaves a default-priority handler behind an earlier one of negative priority)
	sorts := func(cc *ssa.CallCommon) bool {
		n := calleeName(cc)
		if i := strings.Index(n, "["); i >= 0 {
			n = n[:i]
		}
		if stableSorts[n] || unstableSorts[n] {
			return true
		}
		if g := cc.StaticCallee(); g != nil && inPkgs(g, "bot") {
			for _, ci := range callsIn(core.Origin(g), func(m string, _ *ssa.CallCommon) bool {
				if i := strings.Index(m, "["); i >= 0 {
					m = m[:i]
				}
				return stableSorts[m] || unstableSorts[m]
			}) {
				_ = ci
				return true
			}
		}
		return false
	}
	seen = map[*ssa.Function]bool{}
	nApp := 0
	var fl []*ssa.Function
	for f := range reach {
		f = core.Origin(f)
		if !seen[f] {
			seen[f] = true
			fl = append(fl, f)
		}
	}
	sortFns(fl)
	for _, f := range fl {
		if len(callsIn(f, func(n string, _ *ssa.CallCommon) bool { return n == "sort.Search" })) > 0 {
			continue // sorted insertion: judged above
		}
		for _, b := range f.Blocks {
			for _, in := range b.Instrs {
				call, ok := in.(*ssa.Call)
				if !ok {
					continue
				}
				bi, isB := call.Call.Value.(*ssa.Builtin)
				if !isB || bi.Name() != "append" {
					continue
				}
				sl, isSl := call.Type().Underlying().(*types.Slice)
				if !isSl || !isNamed(sl.Elem(), core.ModPath+"/bot", "PacketHandler") {
					continue
				}
				nApp++
				o := c.ordOb(fmt.Sprintf("handler-sort:after-append:%s#%d", core.FnName(f), nApp), "where a handler is appended to a table the sort follows on every path to the function's exit", f)
				o.Pos = c.P.Pos(call.Pos())
				if !mustFollow(f, call, func(x ssa.Instruction) bool {
					ci, ok := x.(ssa.CallInstruction)
					return ok && sorts(ci.Common())
				}) {
					o.Status, o.Got = core.Violated, "a path from the append to the exit skips the sort: a handler stays where it was appended, whatever its priority relative to the ones before it"
				}
				obs = append(obs, o)
			}
		}
	}
	if nSorts == 0 {
		o := c.ordOb("handler-sort:none", "AddListener/AddGeneric keep handler tables sorted by priority", nil)
		o.Status, o.Got = core.Violated, "no sort call reachable from AddListener/AddGeneric"
		obs = append(obs, o)
	}
	return obs
}

// descendingPriority checks the comparator closure passed to the sort.
func descendingPriority(cc *ssa.CallCommon) string {
	var cl *ssa.Function
	for _, a := range cc.Args {
		switch v := a.(type) {
		case *ssa.MakeClosure:
			cl, _ = v.Fn.(*ssa.Function)
		case *ssa.Function:
			cl = v
		case *ssa.MakeInterface:
			// sort.Stable(byPriority(s)): the comparator is the Less method of the argument's type
			if prog := v.Parent().Prog; prog != nil {
				ms := prog.MethodSets.MethodSet(v.X.Type())
				if sel := ms.Lookup(nil, "Less"); sel != nil {
					cl = prog.MethodValue(sel)
				}
			}
		}
	}
	if cl == nil || len(cl.Params) < 2 || len(cl.Params) > 3 {
		return "comparator is not a two-argument function literal or a Less method: cannot decide the order"
	}
	off := len(cl.Params) - 2 // a method's receiver comes first
	for _, b := range cl.Blocks {
		for _, in := range b.Instrs {
			r, ok := in.(*ssa.Return)
			if !ok || len(r.Results) != 1 {
				continue
			}
			// slices.SortStableFunc(s, func(a, b T) int { return cmp.Compare(b.Priority, a.Priority) })
			if cc, isCall := r.Results[0].(*ssa.Call); isCall && strings.HasPrefix(calleeName(cc.Common()), "cmp.Compare") && len(cc.Common().Args) == 2 {
				pi := func(v ssa.Value) int {
					v = stripConv(v)
					if !loadsField(v, "Priority") {
						return -1
					}
					for d := 0; d < 4; d++ {
						switch x := v.(type) {
						case *ssa.Field:
							v = x.X
							continue
						case *ssa.UnOp:
							v = x.X
							continue
						case *ssa.FieldAddr:
							v = x.X
							continue
						}
						break
					}
					if al, ok := v.(*ssa.Alloc); ok {
						if sv := singleStore(al); sv != nil {
							v = sv
						}
					}
					for k, p := range cl.Params {
						if v == ssa.Value(p) {
							return k - off
						}
					}
					return -1
				}
				x, y := pi(cc.Common().Args[0]), pi(cc.Common().Args[1])
				switch {
				case x == 1 && y == 0:
					return "" // compare(b, a): descending, ties keep their order under a stable sort
				case x == 0 && y == 1:
					return "comparator orders ascending: lower priority first"
				default:
					return "comparator does not compare the Priority fields of its two arguments"
				}
			}
			cmp, ok := r.Results[0].(*ssa.BinOp)
			if !ok {
				return "comparator does not return a single comparison"
			}
			li, lj := indexParamOf(cmp.X, cl)-off, indexParamOf(cmp.Y, cl)-off
			if li < 0 || lj < 0 || !loadsField(cmp.X, "Priority") || !loadsField(cmp.Y, "Priority") {
				return "comparator does not compare the Priority fields of elements i and j"
			}
			switch {
			case cmp.Op == token.GTR && li == 0 && lj == 1, cmp.Op == token.LSS && li == 1 && lj == 0:
				return ""
			case cmp.Op == token.GEQ || cmp.Op == token.LEQ:
				return "comparator is not strict (>=): equal priorities are reported as ordered, which breaks stability"
			default:
				return "comparator orders ascending: lower priority first"
			}
		}
	}
	return "comparator has no return"
}

// searchBehindEqual checks the predicate closure of a sort.Search that finds the insertion point.
func searchBehindEqual(cc *ssa.CallCommon) string {
	var cl *ssa.Function
	for _, a := range cc.Args {
		switch v := a.(type) {
		case *ssa.MakeClosure:
			cl, _ = v.Fn.(*ssa.Function)
		case *ssa.Function:
			cl = v
		}
	}
	if cl == nil || len(cl.Params) != 1 {
		return "the search predicate is not a function literal: cannot decide where equal priorities go"
	}
	for _, b := range cl.Blocks {
		for _, in := range b.Instrs {
			r, ok := in.(*ssa.Return)
			if !ok || len(r.Results) != 1 {
				continue
			}
			cmp, ok := r.Results[0].(*ssa.BinOp)
			if !ok || !loadsField(cmp.X, "Priority") || !loadsField(cmp.Y, "Priority") {
				return "the search predicate does not compare two Priority fields"
			}
			ex, ey := indexParamOf(cmp.X, cl) == 0, indexParamOf(cmp.Y, cl) == 0
			if ex == ey {
				return "the search predicate does not compare the element at the probed index with the new handler"
			}
			op := cmp.Op
			if ey { // new OP element  ->  element OP' new
				switch op {
				case token.LSS:
					op = token.GTR
				case token.GTR:
					op = token.LSS
				case token.LEQ:
					op = token.GEQ
				case token.GEQ:
					op = token.LEQ
				}
			}
			switch op {
			case token.LSS:
				return ""
			case token.LEQ:
				return "the search predicate is not strict (element <= new): the new handler is put in front of the registered handlers of the same priority, ties run in reverse registration order"
			default:
				return "the search predicate orders ascending: lower priority first"
			}
		}
	}
	return "the search predicate has no return"
}

// indexParamOf: the value is a field load of slice[param k]: returns k.
func indexParamOf(v ssa.Value, fn *ssa.Function) int {
	for depth := 0; depth < 8; depth++ {
		switch x := v.(type) {
		case *ssa.UnOp:
			v = x.X
		case *ssa.FieldAddr:
			v = x.X
		case *ssa.Field:
			v = x.X
		case *ssa.IndexAddr:
			for k, p := range fn.Params {
				if x.Index == ssa.Value(p) {
					return k
				}
			}
			return -1
		case *ssa.Index:
			for k, p := range fn.Params {
				if x.Index == ssa.Value(p) {
					return k
				}
			}
			return -1
		default:
			return -1
		}
	}
	return -1
}

func loadsField(v ssa.Value, name string) bool {
	if u, ok := v.(*ssa.UnOp); ok && u.Op == token.MUL {
		if fa, ok := u.X.(*ssa.FieldAddr); ok {
			if st, ok := deref(fa.X.Type()).Underlying().(*types.Struct); ok {
				return st.Field(fa.Field).Name() == name
			}
		}
	}
	if f, ok := v.(*ssa.Field); ok {
		if st, ok := f.X.Type().Underlying().(*types.Struct); ok {
			return st.Field(f.Field).Name() == name
		}
	}
	return false
}

// ------------------------------------------------------ C19: dispatch order

func firstLoadOfField(fn *ssa.Function, field string) *ssa.BasicBlock {
	for _, b := range fn.Blocks {
		for _, in := range b.Instrs {
			if fa, ok := in.(*ssa.FieldAddr); ok {
				if st, ok := deref(fa.X.Type()).Underlying().(*types.Struct); ok && st.Field(fa.Field).Name() == field {
					return b
				}
			}
		}
	}
	return nil
}

// firstReadOfField: like firstLoadOfField, and a call of an accessor of the same package (a function
// that reads the field and calls nothing through a function value) counts as the read.
func (c *Ctx) firstReadOfField(fn *ssa.Function, field string) *ssa.BasicBlock {
	for _, b := range fn.Blocks {
		for _, in := range b.Instrs {
			if fa, ok := in.(*ssa.FieldAddr); ok {
				if st, ok := deref(fa.X.Type()).Underlying().(*types.Struct); ok && st.Field(fa.Field).Name() == field {
					return b
				}
			}
			if ci, ok := in.(ssa.CallInstruction); ok {
				g := ci.Common().StaticCallee()
				if g == nil || g.Parent() != nil || len(g.Blocks) == 0 || core.FnPkg(g) == nil || core.FnPkg(fn) == nil || core.FnPkg(g).Pkg != core.FnPkg(fn).Pkg {
					continue
				}
				if len(dynamicCallsWithClosures(g)) == 0 && firstLoadOfField(g, field) != nil {
					return b
				}
			}
		}
	}
	return nil
}

// DispatchOrder: handlePacket runs generic handlers before id-specific ones
// and stops at the first error.
func (c *Ctx) DispatchOrder() []core.Ob {
	// the two handler tables of bot.Events, by type: the generic one is a slice of handlers,
	// the id-specific one a slice (or map) of such slices
	generic, specific := "", ""
	if pk := c.P.Pkg("bot"); pk != nil {
		if tn, ok := pk.Types.Scope().Lookup("Events").(*types.TypeName); ok {
			if st, ok := tn.Type().Underlying().(*types.Struct); ok {
				for i := 0; i < st.NumFields(); i++ {
					switch t := st.Field(i).Type().Underlying().(type) {
					case *types.Slice:
						if _, inner := t.Elem().Underlying().(*types.Slice); inner {
							specific = st.Field(i).Name()
						} else if _, isStruct := t.Elem().Underlying().(*types.Struct); isStruct {
							generic = st.Field(i).Name()
						}
					case *types.Map:
						if _, inner := t.Elem().Underlying().(*types.Slice); inner {
							specific = st.Field(i).Name()
						}
					case *types.Array:
						if _, inner := t.Elem().Underlying().(*types.Slice); inner {
							specific = st.Field(i).Name()
						}
					}
				}
			}
		}
	}
	// the dispatcher: the function of package bot that reads both tables and calls handler functions
	var fn *ssa.Function
	nd := 0
	for _, f := range c.Funcs() {
		if !inPkgs(f, "bot") || generic == "" || specific == "" {
			continue
		}
		if c.firstReadOfField(f, generic) == nil || c.firstReadOfField(f, specific) == nil {
			continue
		}
		if f.Parent() != nil {
			continue
		}
		if len(dynamicCallsWithClosures(f)) > 0 || len(c.handlerRunners(f)) > 0 {
			fn = f
			nd++
		}
	}
	if fn == nil || nd != 1 {
		o := c.ordOb("dispatch-order:generic-before-specific", "the loop over generic handlers completes before the loop over id-specific handlers starts", nil)
		o.Status, o.Got = core.Violated, fmt.Sprintf("%d functions of package bot read both handler tables of Events (%q, %q) and call handlers: the dispatcher is not recognised", nd, generic, specific)
		return []core.Ob{o}
	}
	o := c.ordOb("dispatch-order:generic-before-specific", "the loop over generic handlers completes before the loop over id-specific handlers starts", fn)
	g, h := c.firstReadOfField(fn, generic), c.firstReadOfField(fn, specific)
	switch {
	case g == nil || h == nil:
		o.Status, o.Got = core.Violated, "handler tables not both read in the dispatcher"
	case !(g.Dominates(h) && g != h) || reaches(h, g):
		o.Status, o.Got = core.Violated, "the read of the id-specific table is not strictly after the generic loop"
	}
	obs := []core.Ob{o}
	// every handler call's error is checked and returned immediately
	k := 0
	// the calls of a local closure that runs handlers are handler calls too: their error must stop dispatch as well
	var handlerCalls []ssa.CallInstruction
	handlerCalls = append(handlerCalls, dynamicCallsWithClosures(fn)...)
	for _, ci := range callsIn(fn, func(n string, cc *ssa.CallCommon) bool {
		g := cc.StaticCallee()
		return g != nil && g.Parent() == fn && len(dynamicCallsWithClosures(g)) > 0
	}) {
		handlerCalls = append(handlerCalls, ci)
	}
	// a helper of the package that runs a slice of handlers (runHandlers(list, p)): its calls in the
	// dispatcher and the handler calls inside it are handler calls
	runners := c.handlerRunners(fn)
	for _, ci := range callsIn(fn, func(n string, cc *ssa.CallCommon) bool {
		g := cc.StaticCallee()
		return g != nil && runners[core.Origin(g)]
	}) {
		handlerCalls = append(handlerCalls, ci)
	}
	for g := range runners {
		handlerCalls = append(handlerCalls, dynamicCallsWithClosures(g)...)
	}
	for _, ci := range handlerCalls {
		k++
		e := c.ordOb(fmt.Sprintf("dispatch-order:handler-error#%d", k), "a handler's error stops dispatch: the next block returns when err != nil", fn)
		e.Pos = c.P.Pos(ci.Pos())
		call, _ := ci.(*ssa.Call)
		if call == nil || !(errCheckedThenReturn(call) || returnedDirectly(call)) {
			e.Status, e.Got = core.Violated, "handler result is not tested with an immediate return on error"
		}
		obs = append(obs, e)
	}
	// the callers of the dispatcher inside package bot (the game loop, the bundle loop) stop at its first error too:
	// a packet after a failed one is not dispatched
	perCaller := map[string]int{}
	for _, f := range c.Funcs() {
		if !inPkgs(f, "bot") {
			continue
		}
		for _, ci := range callsIn(f, func(_ string, cc *ssa.CallCommon) bool {
			g := cc.StaticCallee()
			return g != nil && core.Origin(g) == fn
		}) {
			perCaller[core.FnName(f)]++
			e := c.ordOb(fmt.Sprintf("dispatch-order:dispatcher-error:%s#%d", core.FnName(f), perCaller[core.FnName(f)]), "an error of the packet dispatcher ends its caller's loop at once: no later packet is dispatched after a handler failed", f)
			e.Pos = c.P.Pos(ci.Pos())
			call, _ := ci.(*ssa.Call)
			if call == nil || !(errCheckedThenReturn(call) || returnedDirectly(call)) {
				e.Status, e.Got = core.Violated, "the dispatcher's error is not tested with an immediate return: the remaining packets are still dispatched"
			}
			obs = append(obs, e)
		}
	}
	if k == 0 {
		e := c.ordOb("dispatch-order:handler-calls", "handlePacket calls the registered handler functions", fn)
		e.Status, e.Got = core.Violated, "no dynamic handler call found"
		obs = append(obs, e)
	}
	return obs
}

// dynamicCallsWithClosures: calls through function values in f and in the closures it declares.
func dynamicCallsWithClosures(f *ssa.Function) []ssa.CallInstruction {
	out := callsIn(f, func(n string, cc *ssa.CallCommon) bool {
		if cc.IsInvoke() || cc.StaticCallee() != nil {
			return false
		}
		_, isB := cc.Value.(*ssa.Builtin)
		return !isB
	})
	for _, an := range f.AnonFuncs {
		out = append(out, dynamicCallsWithClosures(an)...)
	}
	return out
}

// returnedDirectly: the call's (error) result is what the function returns at once.
func returnedDirectly(call *ssa.Call) bool {
	if call.Referrers() == nil {
		return false
	}
	for _, r := range *call.Referrers() {
		if ret, ok := r.(*ssa.Return); ok {
			for _, v := range ret.Results {
				if v == ssa.Value(call) {
					return true
				}
			}
		}
	}
	return false
}

// reaches: a path from a to b exists.
func reaches(a, b *ssa.BasicBlock) bool {
	seen := map[*ssa.BasicBlock]bool{}
	st := []*ssa.BasicBlock{a}
	for len(st) > 0 {
		x := st[len(st)-1]
		st = st[:len(st)-1]
		for _, s := range x.Succs {
			if s == b {
				return true
			}
			if !seen[s] {
				seen[s] = true
				st = append(st, s)
			}
		}
	}
	return false
}

// errCheckedThenReturn: the error result of call is compared with nil and the
// non-nil edge leads to a return without further calls.
func errCheckedThenReturn(call *ssa.Call) bool {
	var errv ssa.Value = call
	if tup, ok := call.Type().(*types.Tuple); ok {
		errv = nil
		if refs := call.Referrers(); refs != nil {
			for _, r := range *refs {
				if ex, ok := r.(*ssa.Extract); ok && ex.Index == tup.Len()-1 {
					errv = ex
				}
			}
		}
	}
	if errv == nil || errv.Referrers() == nil {
		return false
	}
	// the error may be merged with the error of the alternative branch first
	// (if a { err = f() } else { err = g() }; if err != nil { return err }): then no call of the
	// module lies between this call and the test
	vals := []ssa.Value{errv}
	for _, r := range *errv.Referrers() {
		if phi, ok := r.(*ssa.Phi); ok && phi.Referrers() != nil && len(call.Block().Succs) == 1 && call.Block().Succs[0] == phi.Block() {
			clean := true
			after := false
			for _, in := range call.Block().Instrs {
				if in == ssa.Instruction(call) {
					after = true
					continue
				}
				if _, isCall := in.(ssa.CallInstruction); after && isCall {
					clean = false
				}
			}
			if clean {
				vals = append(vals, phi)
			}
		}
	}
	var refs []ssa.Instruction
	for _, v := range vals {
		refs = append(refs, *v.Referrers()...)
	}
	for _, r := range refs {
		cmp, ok := r.(*ssa.BinOp)
		if !ok || (cmp.Op != token.NEQ && cmp.Op != token.EQL) {
			continue
		}
		if cmp.Referrers() == nil {
			continue
		}
		for _, u := range *cmp.Referrers() {
			iff, ok := u.(*ssa.If)
			if !ok {
				continue
			}
			b := iff.Block()
			errEdge := b.Succs[0]
			if cmp.Op == token.EQL {
				errEdge = b.Succs[1]
			}
			if returnsSoon(errEdge) {
				return true
			}
		}
	}
	return false
}

func returnsSoon(b *ssa.BasicBlock) bool {
	for depth := 0; depth < 3; depth++ {
		for _, in := range b.Instrs {
			if _, ok := in.(*ssa.Return); ok {
				return true
			}
		}
		if len(b.Succs) != 1 {
			return false
		}
		b = b.Succs[0]
	}
	return false
}

// ------------------------------------------------- C19: compression switch

func marshalID(v ssa.Value) string {
	// the argument of WritePacket is the result of pk.Marshal[...](id, fields...)
	call, ok := v.(*ssa.Call)
	if !ok {
		return ""
	}
	n := calleeName(call.Common())
	if !strings.Contains(n, "net/packet.Marshal") {
		return ""
	}
	if len(call.Common().Args) == 0 {
		return ""
	}
	a := call.Common().Args[0]
	for {
		switch x := a.(type) {
		case *ssa.Convert:
			a = x.X
			continue
		case *ssa.ChangeType:
			a = x.X
			continue
		}
		break
	}
	if k, ok := a.(*ssa.Const); ok && k.Value != nil {
		return k.Value.ExactString()
	}
	return "?"
}

// sendWrapperID: the call is to a local closure or helper of the form
// send(id, fields...) { return conn.WritePacket(pk.Marshal(id, fields...)) }: the packet id it is given.
func sendWrapperID(ci ssa.CallInstruction) (string, bool) {
	g := ci.Common().StaticCallee()
	if g == nil || len(g.Blocks) == 0 {
		return "", false
	}
	for _, b := range g.Blocks {
		for _, in := range b.Instrs {
			wc, ok := in.(ssa.CallInstruction)
			if !ok || !strings.HasSuffix(calleeName(wc.Common()), "/net.(Conn).WritePacket") || len(wc.Common().Args) < 2 {
				continue
			}
			mc, ok := wc.Common().Args[1].(*ssa.Call)
			if !ok || !strings.Contains(calleeName(mc.Common()), "net/packet.Marshal") || len(mc.Common().Args) == 0 {
				continue
			}
			idv := stripConv(mc.Common().Args[0])
			for k, p := range g.Params {
				if idv == ssa.Value(p) && k < len(ci.Common().Args) {
					a := stripConv(ci.Common().Args[k])
					if c, ok := a.(*ssa.Const); ok && c.Value != nil {
						return c.Value.ExactString(), true
					}
					return "?", true
				}
			}
		}
	}
	return "", false
}

// CompressionSwitch: the server writes the set-compression packet, then
// SetThreshold, with no other packet I/O in between; the bot applies the
// threshold in its set-compression case.
func (c *Ctx) CompressionSwitch() []core.Ob {
	var obs []core.Ob
	idv, ok := c.constValue("data/packetid", "ClientboundLoginLoginCompression")
	if !ok {
		return []core.Ob{missingFn("compression-switch:const", "packetid.ClientboundLoginLoginCompression")}
	}
	fn := c.Fn("server.(*MojangLoginHandler).AcceptLogin")
	if fn == nil {
		return []core.Ob{missingFn("compression-switch:server", "server.(*MojangLoginHandler).AcceptLogin")}
	}
	// the code that switches compression on: AcceptLogin or the helper of the package it moved to
	for _, g := range c.withPkgCallees(fn, 2) {
		if len(callsIn(g, func(n string, _ *ssa.CallCommon) bool { return strings.HasSuffix(n, "/net.(Conn).SetThreshold") })) > 0 {
			fn = g
			break
		}
	}
	o := c.ordOb("compression-switch:server", "SetThreshold is called exactly after the set-compression packet was written, before any other packet is read or written", fn)
	// forward dataflow: 0 before, 1 compression packet written, 2 threshold set; may-states as bitset
	type st = uint8
	in := map[*ssa.BasicBlock]st{fn.Blocks[0]: 1 << 0}
	work := []*ssa.BasicBlock{fn.Blocks[0]}
	nSet := 0
	bad := ""
	for len(work) > 0 {
		b := work[0]
		work = work[1:]
		s := in[b]
		for _, insn := range b.Instrs {
			ci, ok := insn.(ssa.CallInstruction)
			if !ok {
				continue
			}
			n := calleeName(ci.Common())
			wrapID, isWrap := sendWrapperID(ci)
			switch {
			case strings.HasSuffix(n, "/net.(Conn).WritePacket") || isWrap:
				id := wrapID
				if !isWrap && len(ci.Common().Args) > 1 {
					id = marshalID(ci.Common().Args[1])
				}
				if id == idv.String() {
					s = 1 << 1
				} else if s&(1<<1) != 0 {
					bad = "another packet is written between the set-compression packet and SetThreshold (" + c.P.Pos(ci.Pos()) + ")"
				}
			case strings.HasSuffix(n, "/net.(Conn).ReadPacket"):
				if s&(1<<1) != 0 {
					bad = "a packet is read between the set-compression packet and SetThreshold (" + c.P.Pos(ci.Pos()) + ")"
				}
			case strings.HasSuffix(n, "/net.(Conn).SetThreshold"):
				nSet++
				if s != 1<<1 {
					bad = "SetThreshold is reachable without the set-compression packet having just been written (" + c.P.Pos(ci.Pos()) + ")"
				}
				s = 1 << 2
			}
		}
		// a successful write is required: on the error edge of the write the function returns
		for _, nx := range b.Succs {
			old, seen := in[nx]
			j := old | s
			if !seen || j != old {
				in[nx] = j
				work = append(work, nx)
			}
		}
	}
	if nSet == 0 {
		bad = "AcceptLogin never calls SetThreshold"
	}
	if bad != "" {
		o.Status, o.Got = core.Violated, bad
	}
	obs = append(obs, o)

	// SetThreshold is conditional on Threshold >= 0 and passes the same value that was sent
	// the bot's login loop: the function of package bot that calls SetThreshold
	var bf *ssa.Function
	for _, g := range c.Funcs() {
		if inPkgs(g, "bot") && len(callsIn(g, func(n string, _ *ssa.CallCommon) bool { return strings.HasSuffix(n, "/net.(Conn).SetThreshold") })) > 0 {
			if bf == nil || core.FnName(g) < core.FnName(bf) {
				bf = g
			}
		}
	}
	if bf == nil {
		obs = append(obs, missingFn("compression-switch:bot", "a function of package bot that calls (*net.Conn).SetThreshold"))
		return obs
	}
	b := c.ordOb("compression-switch:bot", "the bot calls SetThreshold with the scanned threshold in its set-compression case, before the next ReadPacket", bf)
	sets := callsIn(bf, func(n string, _ *ssa.CallCommon) bool { return strings.HasSuffix(n, "/net.(Conn).SetThreshold") })
	if len(sets) != 1 {
		b.Status, b.Got = core.Violated, fmt.Sprintf("%d SetThreshold calls in %s", len(sets), bf.Name())
	} else {
		// its argument derives from a location scanned in the same block chain (tainted VarInt)
		arg := sets[0].Common().Args[1]
		if _, isConst := arg.(*ssa.Const); isConst {
			b.Status, b.Got = core.Violated, "SetThreshold is called with a constant, not the value announced by the server"
		}
		// every announced value switches the framing (0 included: the server compresses from then on):
		// the call is not guarded by a test of the announced value itself
		src := loadAddr(stripConv(arg))
		cb := sets[0].Block()
		for d := cb.Idom(); d != nil; d = d.Idom() {
			iff, ok := d.Instrs[len(d.Instrs)-1].(*ssa.If)
			if !ok {
				continue
			}
			guarded := false
			for _, sx := range d.Succs {
				if (sx == cb || sx.Dominates(cb)) && len(sx.Preds) == 1 {
					guarded = true
				}
			}
			cmp, isCmp := iff.Cond.(*ssa.BinOp)
			if !guarded || !isCmp {
				continue
			}
			for _, op := range []ssa.Value{cmp.X, cmp.Y} {
				if v := stripConv(op); v == stripConv(arg) || (loadAddr(v) != v && loadAddr(v) == src) {
					b.Status, b.Got = core.Violated, "SetThreshold is only called when the announced threshold passes a test ("+c.P.Pos(cmp.Pos())+"): for the other values the server has switched framing and the client has not"
				}
			}
		}
	}
	obs = append(obs, b)
	return obs
}

// ------------------------------------------------------------ C14/C15 region

func isRecvFieldAccess(v ssa.Value, recv *ssa.Parameter, field string) bool {
	p, ok := fieldPathFromRecv(v, recv)
	if !ok {
		// index chains: strip IndexAddr
		for {
			ia, isIA := v.(*ssa.IndexAddr)
			if !isIA {
				break
			}
			v = ia.X
			if q, ok2 := fieldPathFromRecv(v, recv); ok2 {
				return q == field
			}
		}
		return false
	}
	return p == field
}

func rootFieldOfAddr(v ssa.Value, recv *ssa.Parameter) string {
	for depth := 0; depth < 10; depth++ {
		if p, ok := fieldPathFromRecv(v, recv); ok {
			return p
		}
		switch x := v.(type) {
		case *ssa.IndexAddr:
			v = x.X
		case *ssa.UnOp:
			v = x.X
		default:
			return ""
		}
	}
	return ""
}

// regionHeaderWriter: the unexported method of Region that writes a header
// slot: found structurally (a method of *Region other than the exported API
// whose body multiplies a coordinate parameter by 32), not by name.
func (c *Ctx) regionHeaderWriter() *ssa.Function {
	for _, fn := range methodsOfType(c, "save/region.Region") {
		if len(fn.Params) < 3 {
			continue
		}
		if obj := fn.Object(); obj != nil && obj.Exported() {
			continue
		}
		for _, b := range fn.Blocks {
			for _, in := range b.Instrs {
				if bo, ok := in.(*ssa.BinOp); ok && bo.Op == token.MUL {
					if k, ok := constIntVal(bo.Y); ok && k == 32 {
						if _, isP := stripConv(bo.X).(*ssa.Parameter); isP {
							return fn
						}
					}
					if k, ok := constIntVal(bo.X); ok && k == 32 {
						if _, isP := stripConv(bo.Y).(*ssa.Parameter); isP {
							return fn
						}
					}
				}
			}
		}
	}
	return nil
}

func isCallTo(ci ssa.CallInstruction, fn *ssa.Function) bool {
	if fn == nil {
		return false
	}
	sc := ci.Common().StaticCallee()
	return sc != nil && core.Origin(sc) == fn
}

// RegionOrder: C14/C15 ordering rules in WriteSector / Load.
// regionLayout: the roles of Region's fields, found by their types (a rename does not matter):
// the backing file (the field whose type can Seek), the in-memory chunk offsets (the unexported
// [32][32]int32 table; the exported one holds the timestamps), the sector occupancy map.
type regionFields struct{ file, offsets, stamps, sectors string }

func (c *Ctx) regionLayout() regionFields {
	var l regionFields
	pk := c.P.Pkg("save/region")
	if pk == nil {
		return l
	}
	tn, _ := pk.Types.Scope().Lookup("Region").(*types.TypeName)
	if tn == nil {
		return l
	}
	st, _ := tn.Type().Underlying().(*types.Struct)
	if st == nil {
		return l
	}
	for i := 0; i < st.NumFields(); i++ {
		f := st.Field(i)
		switch t := f.Type().Underlying().(type) {
		case *types.Interface:
			for j := 0; j < t.NumMethods(); j++ {
				if t.Method(j).Name() == "Seek" {
					l.file = f.Name()
				}
			}
		case *types.Array:
			if in, ok := t.Elem().Underlying().(*types.Array); ok && t.Len() == 32 && in.Len() == 32 {
				if f.Exported() {
					l.stamps = f.Name()
				} else {
					l.offsets = f.Name()
				}
			}
		case *types.Map:
			l.sectors = f.Name()
		}
	}
	return l
}

// RegionOrder: C14/C15 ordering rules of WriteSector / Load, decided on the inlined views of the
// two functions (so the pieces may live in helpers or closures of the package).
func (c *Ctx) RegionOrder() []core.Ob {
	var obs []core.Ob
	ws := c.Fn("save/region.(*Region).WriteSector")
	if ws == nil {
		return []core.Ob{missingFn("region:WriteSector", "save/region.(*Region).WriteSector")}
	}
	lay := c.regionLayout()
	hw := c.regionHeaderWriter()
	v := c.inlineView(ws, 2)
	isHead := func(n *inode) bool {
		ci, ok := n.in.(ssa.CallInstruction)
		return ok && hw != nil && isCallTo(ci, hw)
	}
	// a header slot may also be written in line (setHead folded into its caller): a positioned write
	// whose offset multiplies a coordinate by 32
	type mut struct {
		n    *inode
		what string
	}
	var muts []mut
	var offsetStores []*inode
	for _, n := range v.nodes {
		switch x := n.in.(type) {
		case *ssa.MapUpdate:
			if f := v.recvField(n, x.Map); f != "" {
				muts = append(muts, mut{n, "update of map " + f})
			}
		case *ssa.Store:
			if f := v.recvField(n, x.Addr); f != "" {
				muts = append(muts, mut{n, "store to " + f})
				if f == lay.offsets {
					offsetStores = append(offsetStores, n)
				}
			}
		case ssa.CallInstruction:
			nm := calleeName(x.Common())
			switch {
			case isHead(n):
				muts = append(muts, mut{n, "call " + nm[strings.LastIndex(nm, ".")+1:]})
			case nm == "encoding/binary.Write", strings.HasSuffix(nm, ".Write") && x.Common().IsInvoke(), strings.HasSuffix(nm, ".WriteAt") && x.Common().IsInvoke(), strings.HasSuffix(nm, ".Seek") && x.Common().IsInvoke():
				muts = append(muts, mut{n, "file I/O " + nm})
			}
		}
	}
	// the refusal: the branch one of whose sides returns the package's "too large" sentinel
	refusal := -1
	for _, n := range v.nodes {
		r, ok := n.in.(*ssa.Return)
		if !ok {
			continue
		}
		for _, res := range r.Results {
			if u, ok := res.(*ssa.UnOp); ok {
				if g, ok := u.X.(*ssa.Global); ok && g.Name() == "ErrTooLarge" {
					// the nearest branch above the return
					for x := n.id; x != v.entry && v.idom[x] >= 0; x = v.idom[x] {
						if _, isIf := v.nodes[v.idom[x]].in.(*ssa.If); isIf {
							refusal = v.idom[x]
							break
						}
					}
				}
			}
		}
	}
	o := c.ordOb("region:refusal-before-mutation", "the over-limit refusal (ErrTooLarge) dominates every update of sectors/offsets/Timestamps and every file write in WriteSector: a refused write changes nothing", ws)
	if refusal < 0 {
		o.Status, o.Got = core.Violated, "no branch returning ErrTooLarge found in WriteSector"
	} else {
		for _, m := range muts {
			if !v.dominates(refusal, m.n.id) || refusal == m.n.id {
				o.Status, o.Got = core.Violated, m.what+" at "+c.P.Pos(m.n.in.Pos())+" is not dominated by the size refusal"
				break
			}
		}
		if len(muts) < 5 {
			o.Status, o.Got = core.Violated, fmt.Sprintf("only %d state-changing instructions recognised in WriteSector (expected >= 5)", len(muts))
		}
	}
	obs = append(obs, o)

	// every in-memory header update is mirrored to the file: offsets store -> header write on all paths
	h := c.ordOb("region:header-mirrored", "every store to the in-memory offsets table in WriteSector is followed by a write of the header slot on every path to a return", ws)
	if len(offsetStores) == 0 {
		h.Status, h.Got = core.Violated, "no store to the in-memory offsets table found in WriteSector"
	}
	for _, sn := range offsetStores {
		if !v.mustFollow(sn.id, isHead) {
			h.Status, h.Got = core.Violated, "a path from the offsets update at "+c.P.Pos(sn.in.Pos())+" reaches a return without the header write: the on-disk header goes stale"
		}
	}
	obs = append(obs, h)

	// the occupancy map and the header agree: a change of the map in WriteSector (sectors given back
	// or taken) is followed by a header write on every path - sectors given back while the header
	// still counts them are handed to another chunk and overwritten when this one grows again
	om := c.ordOb("region:occupancy-change-mirrored", "every update of the sector-occupancy map in WriteSector is followed by a write of the chunk's header slot on every path to a return", ws)
	nMap := 0
	for _, n := range v.nodes {
		mu, ok := n.in.(*ssa.MapUpdate)
		if !ok || v.recvField(n, loadAddr(mu.Map)) != lay.sectors || lay.sectors == "" {
			continue
		}
		nMap++
		if !v.mustFollow(n.id, isHead) {
			om.Status, om.Got = core.Violated, "a path from the occupancy update at "+c.P.Pos(mu.Pos())+" reaches a return without a header write: the map and the header's sector count disagree"
		}
	}
	if nMap == 0 {
		om.Status, om.Got = core.Violated, "no update of the occupancy map found in WriteSector"
	}
	obs = append(obs, om)

	// the sector count stored in the low byte of a location fits in a byte
	obs = append(obs, c.regionCountFits(ws)...)

	// the header writer receives WriteSector's own x, z (in that order)
	a := c.ordOb("region:setHead-own-coordinates", "the header slot is written for WriteSector's own x and z, in this order", ws)
	nHeads := 0
	for _, n := range v.nodes {
		if !isHead(n) {
			continue
		}
		nHeads++
		args := n.in.(ssa.CallInstruction).Common().Args
		okArgs := len(args) >= 3 && len(ws.Params) >= 3
		if okArgs {
			x1, f1 := n.frame.resolve(args[1])
			x2, f2 := n.frame.resolve(args[2])
			okArgs = f1 != nil && f2 != nil && f1.parent == nil && f2.parent == nil && x1 == ssa.Value(ws.Params[1]) && x2 == ssa.Value(ws.Params[2])
		}
		if !okArgs {
			a.Status, a.Got = core.Violated, "the header writer's arguments are not (x, z) of the enclosing WriteSector call at "+c.P.Pos(n.in.Pos())
		}
	}
	if nHeads == 0 {
		a.Status, a.Got = core.Violated, "no call of the header-slot writer (the Region method computing 4*(z*32+x)) in WriteSector"
	}
	obs = append(obs, a)

	// Load rebuilds occupancy from every header entry: the loops over the header leave only through their conditions
	ld := c.Fn("save/region.Load")
	if ld == nil {
		obs = append(obs, missingFn("region:Load", "save/region.Load"))
	} else {
		l := c.ordOb("region:load-visits-every-entry", "the loops in Load that rebuild the sector occupancy map leave only through their loop conditions (no break/return inside): every header entry is accounted for", ld)
		nLoops := 0
		for _, g := range c.withPkgCallees(ld, 2) {
			for _, lp := range naturalLoops(g) {
				// the header scan: loops that read the offsets table or update the occupancy map (directly or below)
				touches := false
				for b := range lp.body {
					for _, in := range b.Instrs {
						switch x := in.(type) {
						case *ssa.MapUpdate:
							touches = true
						case *ssa.IndexAddr:
							if _, ok := deref(x.X.Type()).Underlying().(*types.Array); ok {
								touches = true
							}
						case ssa.CallInstruction:
							if sc := x.Common().StaticCallee(); sc != nil && inPkgs(sc, "save/region") {
								touches = true
							}
						}
					}
				}
				if !touches {
					continue
				}
				nLoops++
				for b := range lp.body {
					if b == lp.header {
						continue
					}
					for _, s := range b.Succs {
						// (giving up because a read failed is not a way of skipping entries; refusing the file
						// because of what an entry says is: a header slot is written before its data, so an
						// entry may point past the end of the file after a crash)
						if !lp.body[s] && !(failsOnly(s) && passesOnCallError(s)) {
							l.Status, l.Got = core.Violated, "a block inside a scan loop jumps out of the loop (break/return, or a refusal that depends on an entry's value): later entries are skipped"
						}
					}
				}
			}
		}
		if nLoops < 2 {
			l.Status, l.Got = core.Violated, fmt.Sprintf("%d header-scan loops found in Load and its helpers (expected the nested scan)", nLoops)
		}
		obs = append(obs, l)
	}
	return obs
}

type loopInfo struct {
	header *ssa.BasicBlock
	body   map[*ssa.BasicBlock]bool
}

func naturalLoops(fn *ssa.Function) []loopInfo {
	byHeader := map[*ssa.BasicBlock]*loopInfo{}
	var order []*ssa.BasicBlock
	for _, b := range fn.Blocks {
		for _, s := range b.Succs {
			if s.Dominates(b) { // back edge b -> s
				li := byHeader[s]
				if li == nil {
					li = &loopInfo{header: s, body: map[*ssa.BasicBlock]bool{s: true}}
					byHeader[s] = li
					order = append(order, s)
				}
				st := []*ssa.BasicBlock{b}
				for len(st) > 0 {
					x := st[len(st)-1]
					st = st[:len(st)-1]
					if li.body[x] {
						continue
					}
					li.body[x] = true
					st = append(st, x.Preds...)
				}
			}
		}
	}
	var out []loopInfo
	for _, h := range order {
		out = append(out, *byHeader[h])
	}
	return out
}

// mustFollow: on every path from `from` to a Return, an instruction
// satisfying pred occurs.
func mustFollow(fn *ssa.Function, from ssa.Instruction, pred func(ssa.Instruction) bool) bool {
	ok := true
	scan := func(instrs []ssa.Instruction, pending bool) bool {
		for _, insn := range instrs {
			if insn == from {
				pending = true
				continue
			}
			if pending && pred(insn) {
				pending = false
			}
			if _, isRet := insn.(*ssa.Return); isRet && pending {
				ok = false
			}
		}
		return pending
	}
	fb := from.Block()
	idx := instrIndex(from)
	out := scan(fb.Instrs[idx:], false)
	in := map[*ssa.BasicBlock]bool{} // may-pending at block entry
	visited := map[*ssa.BasicBlock]bool{}
	var work []*ssa.BasicBlock
	push := func(b *ssa.BasicBlock, pending bool) {
		if !visited[b] || (pending && !in[b]) {
			visited[b] = true
			in[b] = in[b] || pending
			work = append(work, b)
		}
	}
	for _, s := range fb.Succs {
		push(s, out)
	}
	for len(work) > 0 {
		b := work[0]
		work = work[1:]
		o := scan(b.Instrs, in[b])
		for _, s := range b.Succs {
			push(s, o)
		}
	}
	return ok
}

// ---------------------------------------------------------------- C13 SetBlock

// SetBlockCounter: the incremental non-air counter has the right shape.
func (c *Ctx) SetBlockCounter() []core.Ob {
	fn := c.Fn("level.(*Section).SetBlock")
	if fn == nil {
		return []core.Ob{missingFn("setblock", "level.(*Section).SetBlock")}
	}
	var obs []core.Ob
	gets := callsIn(fn, func(n string, _ *ssa.CallCommon) bool { return strings.HasSuffix(n, "level.(PaletteContainer).Get") })
	sets := callsIn(fn, func(n string, _ *ssa.CallCommon) bool { return strings.HasSuffix(n, "level.(PaletteContainer).Set") })
	o := c.ordOb("setblock:old-state-read-before-set", "the previous state at the position is read before the new state is stored", fn)
	if len(gets) == 0 || len(sets) == 0 {
		o.Status, o.Got = core.Violated, fmt.Sprintf("%d Get / %d Set calls on the states container", len(gets), len(sets))
	} else {
		for _, s := range sets {
			for _, g := range gets {
				gb, sb := g.Block(), s.Block()
				before := gb.Dominates(sb) && (gb != sb || instrIndex(g) < instrIndex(s))
				if !before {
					o.Status, o.Got = core.Violated, "States.Set is not dominated by the States.Get of the old state"
				}
			}
		}
	}
	obs = append(obs, o)
	// counter updates
	dec, inc := 0, 0
	for _, b := range fn.Blocks {
		for _, in := range b.Instrs {
			st, ok := in.(*ssa.Store)
			if !ok {
				continue
			}
			fa, ok := st.Addr.(*ssa.FieldAddr)
			if !ok {
				continue
			}
			stt, _ := deref(fa.X.Type()).Underlying().(*types.Struct)
			if stt == nil || stt.Field(fa.Field).Name() != "BlockCount" {
				continue
			}
			bo, ok := st.Val.(*ssa.BinOp)
			if !ok {
				continue
			}
			k, _ := bo.Y.(*ssa.Const)
			one := k != nil && k.Value != nil && k.Value.Kind() == constant.Int && k.Value.ExactString() == "1"
			sub := bo.Op == token.SUB
			u := c.ordOb("", "", fn)
			u.Pos = c.P.Pos(st.Pos())
			// controlling condition: single predecessor ending in If on IsAir(x)
			var arg ssa.Value
			airEdge := -1
			if len(b.Preds) == 1 {
				if iff, ok := b.Preds[0].Instrs[len(b.Preds[0].Instrs)-1].(*ssa.If); ok {
					cond := iff.Cond
					neg := false
					if n, ok := cond.(*ssa.UnOp); ok && n.Op == token.NOT {
						cond, neg = n.X, true
					}
					if call, ok := cond.(*ssa.Call); ok && strings.HasSuffix(calleeName(call.Common()), "block.IsAir") {
						arg = call.Common().Args[0]
						// which successor index is b, and is IsAir true there?
						idx := 0
						if b.Preds[0].Succs[1] == b {
							idx = 1
						}
						isAirTrue := idx == 0
						if neg {
							isAirTrue = !isAirTrue
						}
						if isAirTrue {
							airEdge = 1
						} else {
							airEdge = 0
						}
					}
				}
			}
			if sub {
				dec++
				u.Key = fmt.Sprintf("setblock:decrement#%d", dec)
				u.Want = "BlockCount is decremented by 1 exactly when the old state (result of States.Get) is not air"
				fromGet := false
				if call, ok := arg.(*ssa.Call); ok && strings.HasSuffix(calleeName(call.Common()), "level.(PaletteContainer).Get") {
					fromGet = true
				}
				if !one || airEdge != 0 || !fromGet {
					u.Status, u.Got = core.Violated, fmt.Sprintf("decrement shape: by-one=%v, on-not-air-edge=%v, tests-old-state=%v", one, airEdge == 0, fromGet)
				}
			} else {
				inc++
				u.Key = fmt.Sprintf("setblock:increment#%d", inc)
				u.Want = "BlockCount is incremented by 1 exactly when the new state (the parameter) is not air"
				isParam := false
				for _, p := range fn.Params {
					if arg == ssa.Value(p) {
						isParam = true
					}
				}
				if !one || bo.Op != token.ADD || airEdge != 0 || !isParam {
					u.Status, u.Got = core.Violated, fmt.Sprintf("increment shape: by-one=%v, on-not-air-edge=%v, tests-new-state=%v", one, airEdge == 0, isParam)
				}
			}
			obs = append(obs, u)
		}
	}
	if dec != 1 || inc != 1 {
		u := c.ordOb("setblock:counter-updates", "SetBlock updates BlockCount with exactly one conditional decrement and one conditional increment", fn)
		u.Status, u.Got = core.Violated, fmt.Sprintf("%d decrements, %d increments", dec, inc)
		obs = append(obs, u)
	}
	return obs
}

func instrIndex(in ssa.Instruction) int {
	for i, x := range in.Block().Instrs {
		if x == in {
			return i
		}
	}
	return -1
}

// ------------------------------------------------------ C19 offline UUID origin

// OfflineUUID: on the offline-mode path of AcceptLogin the id comes from
// offline.NameToUUID, unconditionally.
func (c *Ctx) OfflineUUID() []core.Ob {
	fn := c.Fn("server.(*MojangLoginHandler).AcceptLogin")
	if fn == nil {
		return []core.Ob{missingFn("offline-uuid", "server.(*MojangLoginHandler).AcceptLogin")}
	}
	o := c.ordOb("offline-uuid:unconditional", "when OnlineMode is false, every path to the login-success packet passes through offline.NameToUUID(name): the server never adopts a client-chosen UUID", fn)
	// the branch on the OnlineMode field: in AcceptLogin or in a helper of the package it calls
	var branch *ssa.BasicBlock
	for _, g := range c.withPkgCallees(fn, 2) {
		for _, b := range g.Blocks {
			if len(b.Instrs) == 0 {
				continue
			}
			iff, ok := b.Instrs[len(b.Instrs)-1].(*ssa.If)
			if !ok {
				continue
			}
			if loadsField(iff.Cond, "OnlineMode") && branch == nil {
				branch = b
			}
		}
	}
	if branch == nil {
		o.Status, o.Got = core.Violated, "no branch on the OnlineMode field found"
		return []core.Ob{o}
	}
	off := branch.Succs[1] // false edge: offline
	// every path from off to a WritePacket passes a NameToUUID call
	seen := map[*ssa.BasicBlock]bool{}
	var walk func(b *ssa.BasicBlock) bool
	walk = func(b *ssa.BasicBlock) bool {
		if seen[b] {
			return true
		}
		seen[b] = true
		for _, in := range b.Instrs {
			if ci, ok := in.(ssa.CallInstruction); ok {
				n := calleeName(ci.Common())
				if strings.HasSuffix(n, "/offline.NameToUUID") {
					return true
				}
				if strings.HasSuffix(n, "/net.(Conn).WritePacket") {
					return false
				}
			}
			// leaving the function (towards the caller that writes the packet) without having derived the id
			if r, ok := in.(*ssa.Return); ok {
				if n := len(r.Results); n > 0 && isErrorType(r.Results[n-1].Type()) && !isNilConst(r.Results[n-1]) {
					continue // an error exit
				}
				return false
			}
		}
		for _, s := range b.Succs {
			if !walk(s) {
				return false
			}
		}
		return true
	}
	if !walk(off) {
		o.Status, o.Got = core.Violated, "a path from the offline branch reaches a packet write without calling offline.NameToUUID"
	}
	return []core.Ob{o}
}

// ------------------------------------------------------------ C15 origin rules

// RegionOrigin: who may write the region file, and where WriteSector's data
// write goes.
func (c *Ctx) RegionOrigin() []core.Ob {
	var obs []core.Ob
	mk := func(key, want string, fn *ssa.Function) core.Ob {
		o := core.Ob{Rule: "R-ORIGIN", Key: key, Want: want, Armed: true, Status: core.OK}
		if fn != nil {
			o.Pos, o.Func = c.P.Pos(fn.Pos()), core.FnName(fn)
		}
		return o
	}
	lay := c.regionLayout()
	allowed := map[string]bool{"CreateWriter": true, "WriteSector": true, "PadToFullSector": true}
	// unexported helpers whose every caller is an allowed writer are allowed too (writeAt, setHead)
	for changed := true; changed; {
		changed = false
		for _, fn := range c.Funcs() {
			if !inPkgs(fn, "save/region") || fn.Parent() != nil || allowed[fn.Name()] {
				continue
			}
			if obj := fn.Object(); obj == nil || obj.Exported() {
				continue
			}
			callers, ok := 0, true
			for _, g := range c.Funcs() {
				if !inPkgs(g, "save/region") {
					continue
				}
				for _, ci := range callsIn(g, func(string, *ssa.CallCommon) bool { return true }) {
					if isCallTo(ci, fn) {
						callers++
						top := g
						for top.Parent() != nil {
							top = top.Parent()
						}
						if !allowed[top.Name()] {
							ok = false
						}
					}
				}
			}
			if ok && callers > 0 {
				allowed[fn.Name()] = true
				changed = true
			}
		}
	}
	w := mk("region:who-may-write", "only CreateWriter, WriteSector, PadToFullSector (and unexported helpers called only by them) issue writes on the region's backing file", nil)
	n := 0
	for _, fn := range c.Funcs() {
		if !inPkgs(fn, "save/region") {
			continue
		}
		for _, b := range fn.Blocks {
			for _, in := range b.Instrs {
				ci, ok := in.(ssa.CallInstruction)
				if !ok {
					continue
				}
				cc := ci.Common()
				name := calleeName(cc)
				isWrite := false
				switch {
				case name == "encoding/binary.Write":
					isWrite = derivesFromField(cc.Args[0], lay.file)
				case cc.IsInvoke() && (cc.Method.Name() == "Write" || cc.Method.Name() == "WriteAt" || cc.Method.Name() == "WriteString"):
					isWrite = derivesFromField(cc.Value, lay.file)
				}
				if !isWrite {
					continue
				}
				n++
				top := fn
				for top.Parent() != nil {
					top = top.Parent()
				}
				if !allowed[top.Name()] {
					w.Status, w.Got, w.Pos = core.Violated, "write on the backing file in "+core.FnName(fn), c.P.Pos(in.Pos())
				}
			}
		}
	}
	if n < 4 {
		w.Status, w.Got = core.Violated, fmt.Sprintf("only %d file writes recognised in save/region", n)
	}
	obs = append(obs, w)

	ws := c.Fn("save/region.(*Region).WriteSector")
	s := mk("region:data-seek-target", "the position of WriteSector's data write is 4096*n where n comes only from this chunk's own header slot (sectorLoc(offsets[z][x])) or from findSpace", ws)
	if ws == nil {
		s.Status, s.Got = core.Violated, "WriteSector not found"
		return append(obs, s)
	}
	// the Seek that positions the data write: in WriteSector or in a helper of the package it hands the write to
	view := c.inlineView(ws, 2)
	var seekNodes []*inode
	for _, n := range view.nodes {
		if ci, ok := n.in.(ssa.CallInstruction); ok {
			cc := ci.Common()
			if cc.IsInvoke() && cc.Method.Name() == "Seek" && derivesFromField(cc.Value, lay.file) {
				// the seek to a sector: position = 4096 * sector number (the header slots are addressed differently)
				if bo, ok := stripConv(cc.Args[0]).(*ssa.BinOp); ok && bo.Op == token.MUL {
					kx, okx := constIntVal(bo.X)
					ky, oky := constIntVal(bo.Y)
					if (okx && kx == 4096) || (oky && ky == 4096) {
						seekNodes = append(seekNodes, n)
					}
				}
			}
		}
	}
	if len(seekNodes) != 1 {
		s.Status, s.Got = core.Violated, fmt.Sprintf("%d Seek calls on the file in WriteSector", len(seekNodes))
		return append(obs, s)
	}
	seekFrame := seekNodes[0].frame
	seeks := []ssa.CallInstruction{seekNodes[0].in.(ssa.CallInstruction)}
	// the leaves the position is computed from, each with the frame it lives in; parameters of helper
	// frames are followed to what WriteSector passes, results of inlined helpers to what they return
	type leaf struct {
		v  ssa.Value
		fr *iframe
	}
	var leaves []leaf
	frameOfCall := map[ssa.CallInstruction]*iframe{}
	for _, n := range view.nodes {
		if n.frame.call != nil {
			frameOfCall[n.frame.call] = n.frame
		}
	}
	type wkey struct {
		v  ssa.Value
		fr *iframe
	}
	seen := map[wkey]bool{}
	var walk func(v ssa.Value, fr *iframe)
	walk = func(v ssa.Value, fr *iframe) {
		if seen[wkey{v, fr}] {
			return
		}
		seen[wkey{v, fr}] = true
		if _, ok := v.(*ssa.Parameter); ok && fr != nil && fr.parent != nil {
			if rv, rf := fr.resolve(v); rv != v {
				walk(rv, rf)
				return
			}
		}
		// the result of a helper that is part of the view: what it returns
		resultOf := func(call *ssa.Call, idx int) bool {
			cf := frameOfCall[call]
			if cf == nil {
				return false
			}
			for _, b := range cf.fn.Blocks {
				for _, in := range b.Instrs {
					if r, ok := in.(*ssa.Return); ok && idx < len(r.Results) {
						walk(r.Results[idx], cf)
					}
				}
			}
			return true
		}
		switch x := v.(type) {
		case *ssa.Phi:
			for _, e := range x.Edges {
				walk(e, fr)
			}
		case *ssa.Convert:
			walk(x.X, fr)
		case *ssa.ChangeType:
			walk(x.X, fr)
		case *ssa.BinOp:
			if _, ok := x.X.(*ssa.Const); ok {
				walk(x.Y, fr)
			} else if _, ok := x.Y.(*ssa.Const); ok {
				walk(x.X, fr)
			} else {
				leaves = append(leaves, leaf{v, fr})
			}
		case *ssa.Extract:
			if call, ok := x.Tuple.(*ssa.Call); ok && len(call.Common().Args) > 1 && resultOf(call, x.Index) {
				return
			}
			leaves = append(leaves, leaf{v, fr})
		case *ssa.Const:
			// a constant (0 on an error return of a helper) positions nothing by itself
		default:
			// a field of a local struct (a run of sectors put together on the spot): what was stored into it
			if vals, ok := localFieldStores(v); ok {
				for _, sv := range vals {
					walk(sv, fr)
				}
				return
			}
			leaves = append(leaves, leaf{v, fr})
		}
	}
	walk(seeks[0].Common().Args[0], seekFrame)
	isRootRecv := func(v ssa.Value, fr *iframe) bool {
		rv, rf := fr.resolve(v)
		if rf == nil || rf.parent != nil {
			return false
		}
		if rv == ssa.Value(ws.Params[0]) {
			return true
		}
		// the receiver lives in a cell because a closure captures it
		if ld, ok := rv.(*ssa.UnOp); ok && ld.Op == token.MUL {
			if al, ok := ld.X.(*ssa.Alloc); ok && spilledParam(al) == ssa.Value(ws.Params[0]) {
				return true
			}
		}
		return false
	}
	isRootParam := func(v ssa.Value, fr *iframe, k int) bool {
		rv, rf := fr.resolve(stripConv(v))
		return rf != nil && rf.parent == nil && k < len(ws.Params) && rv == ssa.Value(ws.Params[k])
	}
	for _, lf := range leaves {
		okLeaf := false
		switch x := lf.v.(type) {
		case *ssa.Call:
			// the allocator: a method of the same region (searching its occupancy map)
			if sc := x.Common().StaticCallee(); sc != nil && len(x.Common().Args) > 0 && isRootRecv(x.Common().Args[0], lf.fr) && inPkgs(sc, "save/region") {
				okLeaf = true
			}
		case *ssa.Extract:
			// the decoded header slot: a function of package region applied to this chunk's own offsets[z][x]
			if cl, ok := x.Tuple.(*ssa.Call); ok && x.Index == 0 {
				if sc := cl.Common().StaticCallee(); sc != nil && inPkgs(sc, "save/region") && len(cl.Common().Args) == 1 {
					if ld, ok := cl.Common().Args[0].(*ssa.UnOp); ok {
						if x2, ok := ld.X.(*ssa.IndexAddr); ok {
							if x1, ok := x2.X.(*ssa.IndexAddr); ok {
								fn0 := lf.fr.fn
								okLeaf = len(fn0.Params) > 0 && rootFieldOfAddr(x1.X, fn0.Params[0]) == lay.offsets && isRootRecv(fn0.Params[0], lf.fr) &&
									isRootParam(x1.Index, lf.fr, 2) && isRootParam(x2.Index, lf.fr, 1)
							}
						}
					}
				}
			}
		}
		if !okLeaf {
			s.Status, s.Got = core.Violated, "the seek position also derives from "+lf.v.String()+" (not the chunk's own slot, not findSpace)"
		}
	}
	if len(leaves) == 0 {
		s.Status, s.Got = core.Violated, "seek position is a constant"
	}
	obs = append(obs, s)
	return obs
}

// derivesFromField: v is (a load of) the struct field named field, possibly
// through interface conversions / type assertions.
func derivesFromField(v ssa.Value, field string) bool {
	for d := 0; d < 8; d++ {
		switch x := v.(type) {
		case *ssa.UnOp:
			if fa, ok := x.X.(*ssa.FieldAddr); ok {
				if st, ok := deref(fa.X.Type()).Underlying().(*types.Struct); ok {
					return st.Field(fa.Field).Name() == field
				}
			}
			return false
		case *ssa.MakeInterface:
			v = x.X
		case *ssa.ChangeInterface:
			v = x.X
		case *ssa.TypeAssert:
			v = x.X
		case *ssa.Extract:
			v = x.Tuple
		default:
			return false
		}
	}
	return false
}

// ---------------------------------------------------------- C07 threshold origin

// ThresholdPlumbing: the connection's compression threshold is stored as given
// and applied unchanged to both directions.
// reachesZlib: the call, or something it calls inside net/packet, calls into compress/zlib.
func (c *Ctx) reachesZlib(ci ssa.CallInstruction) bool {
	seen := map[*ssa.Function]bool{}
	var visit func(f *ssa.Function, d int) bool
	visit = func(f *ssa.Function, d int) bool {
		if f == nil || seen[f] || d > 4 {
			return false
		}
		seen[f] = true
		if f.Pkg != nil && f.Pkg.Pkg.Path() == "compress/zlib" {
			return true
		}
		if !inPkgs(f, "net/packet") {
			return false
		}
		for _, b := range f.Blocks {
			for _, in := range b.Instrs {
				if c2, ok := in.(ssa.CallInstruction); ok {
					if strings.HasPrefix(calleeName(c2.Common()), "compress/zlib.") {
						return true
					}
					// static callees only: an interface call on an io.Writer resolves to every writer of the program
					if g := c2.Common().StaticCallee(); g != nil && visit(core.Origin(g), d+1) {
						return true
					}
				}
			}
		}
		return false
	}
	if strings.HasPrefix(calleeName(ci.Common()), "compress/zlib.") {
		return true
	}
	if g := ci.Common().StaticCallee(); g != nil && visit(core.Origin(g), 0) {
		return true
	}
	return false
}

func (c *Ctx) ThresholdPlumbing() []core.Ob {
	var obs []core.Ob
	mk := func(key, want string, fn *ssa.Function) core.Ob {
		o := core.Ob{Rule: "R-ORIGIN", Key: "threshold:" + key, Want: want, Armed: true, Status: core.OK}
		if fn != nil {
			o.Pos, o.Func = c.P.Pos(fn.Pos()), core.FnName(fn)
		}
		return o
	}
	thresholdField := "?"
	st := c.Fn("net.(*Conn).SetThreshold")
	o := mk("SetThreshold-stores-argument", "SetThreshold stores exactly its argument (every value, including 0 = compress everything)", st)
	if st == nil {
		o.Status, o.Got = core.Violated, "net.(*Conn).SetThreshold not found"
	} else {
		// the threshold field is whichever int field of the connection SetThreshold stores into
		n := 0
		for _, b := range st.Blocks {
			for _, in := range b.Instrs {
				s, ok := in.(*ssa.Store)
				if !ok {
					continue
				}
				p, ok := fieldPathFromRecv(s.Addr, st.Params[0])
				if !ok || p == "" || !isIntegerType(s.Val.Type(), types.SizesFor("gc", "amd64")) {
					continue
				}
				n++
				thresholdField = p
				if s.Val != ssa.Value(st.Params[1]) {
					o.Status, o.Got = core.Violated, "the stored value is not the parameter itself (it is transformed first)"
				}
			}
		}
		if n != 1 {
			o.Status, o.Got = core.Violated, fmt.Sprintf("%d stores to integer fields of the connection (want exactly one: the threshold)", n)
		}
	}
	obs = append(obs, o)
	for _, d := range []struct{ fn, callee string }{{"net.(*Conn).ReadPacket", "net/packet.(Packet).UnPack"}, {"net.(*Conn).WritePacket", "net/packet.(Packet).Pack"}} {
		fn := c.Fn(d.fn)
		ob := mk(d.fn+"-uses-field", d.fn+" passes the connection's threshold field, unchanged, to "+d.callee, fn)
		if fn == nil {
			ob.Status, ob.Got = core.Violated, "not found"
			obs = append(obs, ob)
			continue
		}
		calls := callsIn(fn, func(n string, _ *ssa.CallCommon) bool { return strings.HasSuffix(n, d.callee) })
		if len(calls) != 1 {
			ob.Status, ob.Got = core.Violated, fmt.Sprintf("%d calls of %s", len(calls), d.callee)
		} else {
			args := calls[0].Common().Args
			last := args[len(args)-1]
			if p, ok := fieldPathFromRecv(last, fn.Params[0]); !ok || p != thresholdField {
				ob.Status, ob.Got = core.Violated, "the threshold argument is not a plain read of the threshold field"
			}
		}
		obs = append(obs, ob)
	}
	// Pack and UnPack select the compressed form by the same predicate
	var preds []string
	for _, n := range []string{"net/packet.(*Packet).Pack", "net/packet.(*Packet).UnPack"} {
		fn := c.Fn(n)
		if fn == nil {
			preds = append(preds, "?")
			continue
		}
		p := "?"
		for _, b := range fn.Blocks {
			if len(b.Instrs) == 0 {
				continue
			}
			if iff, ok := b.Instrs[len(b.Instrs)-1].(*ssa.If); ok {
				if cmp, ok := iff.Cond.(*ssa.BinOp); ok {
					if k, ok := constIntVal(cmp.Y); ok && cmp.X == ssa.Value(fn.Params[len(fn.Params)-1]) {
						// which successor calls the *WithCompression variant?
						// (the one whose branch reaches compress/zlib, by call graph)
						comp := -1
						for i, s := range b.Succs {
							if len(s.Preds) != 1 {
								continue
							}
							for _, blk := range fn.Blocks {
								if !s.Dominates(blk) {
									continue
								}
								for _, in := range blk.Instrs {
									if ci, ok := in.(ssa.CallInstruction); ok && c.reachesZlib(ci) {
										comp = i
									}
								}
							}
						}
						if comp < 0 {
							continue
						}
						// semantic form: for which thresholds is the compressed variant chosen?
						var sb []string
						for _, t := range []int64{-1, 0, 1} {
							truth := false
							switch cmp.Op {
							case token.GEQ:
								truth = t >= k
							case token.GTR:
								truth = t > k
							case token.LSS:
								truth = t < k
							case token.LEQ:
								truth = t <= k
							case token.EQL:
								truth = t == k
							case token.NEQ:
								truth = t != k
							}
							edge := 1
							if truth {
								edge = 0
							}
							sb = append(sb, fmt.Sprintf("%d:%v", t, edge == comp))
						}
						p = strings.Join(sb, " ")
					}
				}
			}
		}
		preds = append(preds, p)
	}
	po := mk("Pack-UnPack-same-predicate", "Pack and UnPack choose the compressed frame format by the same test of the threshold (>= 0)", nil)
	if preds[0] != preds[1] || preds[0] != "-1:false 0:true 1:true" {
		po.Status, po.Got = core.Violated, "Pack: "+preds[0]+" ; UnPack: "+preds[1]
	} else {
		po.Got = "compressed iff threshold >= 0 (" + preds[0] + ")"
	}
	obs = append(obs, po)
	return obs
}

// regionCountFits: where WriteSector (or a helper) packs a location word as (offset << 8) | count,
// the count is proven to lie in 0..255 at that point (R-TLG intervals): a larger count is cut to its
// low byte and the header then claims fewer sectors than were written.
func (c *Ctx) regionCountFits(ws *ssa.Function) []core.Ob {
	o := c.ordOb("region:sector-count-fits-byte", "the sector count packed into the low 8 bits of a location word is at most 255 there (the size refusal bounds the count itself)", ws)
	t := c.TLG()
	n := 0
	type paramSite struct {
		fn *ssa.Function
		p  *ssa.Parameter
		or *ssa.BinOp
	}
	var deferred []paramSite
	for _, fn := range c.withPkgCallees(ws, 3) {
		var sites []*ssa.BinOp
		for _, b := range fn.Blocks {
			for _, in := range b.Instrs {
				or, ok := in.(*ssa.BinOp)
				if !ok || or.Op != token.OR {
					continue
				}
				for _, pair := range [][2]ssa.Value{{or.X, or.Y}, {or.Y, or.X}} {
					sh, ok := stripConv(pair[0]).(*ssa.BinOp)
					if !ok || sh.Op != token.SHL {
						continue
					}
					if k, ok := constIntVal(sh.Y); !ok || k != 8 {
						continue
					}
					sites = append(sites, or)
				}
			}
		}
		if len(sites) == 0 {
			continue
		}
		t.Probe(fn, func(in ssa.Instruction, eval func(ssa.Value) AV, _ func(string) (AV, bool)) {
			for _, or := range sites {
				if in != ssa.Instruction(or) {
					continue
				}
				for _, pair := range [][2]ssa.Value{{or.X, or.Y}, {or.Y, or.X}} {
					sh, ok := stripConv(pair[0]).(*ssa.BinOp)
					if !ok || sh.Op != token.SHL {
						continue
					}
					// (the value as the program names it: a conversion that defines it keeps its own facts)
					cnt := pair[1]
					if and, ok := stripConv(cnt).(*ssa.BinOp); ok && and.Op == token.AND {
						if k, ok := constIntVal(and.Y); ok && k == 0xFF {
							cnt = and.X
						} else if k, ok := constIntVal(and.X); ok && k == 0xFF {
							cnt = and.Y
						}
					}
					n++
					av := eval(cnt)
					all := av.all()
					if all == nil || all.Hi == nil || all.Hi.Cmp(bi(255)) > 0 {
						// the packing lives in a helper and the count is its parameter: the bound is
						// established by the callers, looked at below
						if p, isParam := stripConv(cnt).(*ssa.Parameter); isParam && fn != ws {
							deferred = append(deferred, paramSite{fn, p, or})
							continue
						}
						o.Status, o.Pos = core.Violated, c.P.Pos(or.Pos())
						o.Got = "the count is only known to be " + av.String() + " where it is packed: a chunk needing 256 or more sectors is recorded with a truncated count"
					}
				}
			}
		})
	}
	// the bound on a parameter is established by the callers (possibly through another helper)
	var atCallers func(fn *ssa.Function, idx int, depth int) (nCalls int)
	atCallers = func(fn *ssa.Function, idx int, depth int) int {
		nCalls := 0
		for _, caller := range c.withPkgCallees(ws, 3) {
			var calls []ssa.CallInstruction
			for _, ci := range callsIn(caller, func(_ string, cc *ssa.CallCommon) bool { return cc.StaticCallee() == fn }) {
				calls = append(calls, ci)
			}
			if len(calls) == 0 {
				continue
			}
			type pending struct {
				fn  *ssa.Function
				idx int
			}
			var more []pending
			t.Probe(caller, func(in ssa.Instruction, eval func(ssa.Value) AV, _ func(string) (AV, bool)) {
				for _, ci := range calls {
					if in != ssa.Instruction(ci) || idx < 0 || idx >= len(ci.Common().Args) {
						continue
					}
					nCalls++
					arg := ci.Common().Args[idx]
					av := eval(arg)
					if all := av.all(); all == nil || all.Hi == nil || all.Hi.Cmp(bi(255)) > 0 {
						if p, isParam := stripConv(arg).(*ssa.Parameter); isParam && caller != ws && depth < 3 {
							for j, q := range caller.Params {
								if q == p {
									more = append(more, pending{caller, j})
								}
							}
							continue
						}
						o.Status, o.Pos = core.Violated, c.P.Pos(ci.Pos())
						o.Got = "the count handed to " + fn.Name() + " (on its way into the low byte of a location word) is only known to be " + av.String() + " at this call"
					}
				}
			})
			seenP := map[pending]bool{}
			for _, m := range more {
				if !seenP[m] {
					seenP[m] = true
					atCallers(m.fn, m.idx, depth+1)
				}
			}
		}
		return nCalls
	}
	for _, ps := range deferred {
		idx := -1
		for i, q := range ps.fn.Params {
			if q == ps.p {
				idx = i
			}
		}
		if atCallers(ps.fn, idx, 0) == 0 {
			o.Status, o.Got = core.Violated, "the helper "+ps.fn.Name()+" packs its parameter but no call of it was found on WriteSector's paths"
		}
	}
	if n == 0 {
		o.Status, o.Got = core.Violated, "no (offset << 8) | count packing found in WriteSector or its helpers"
	}
	return []core.Ob{o}
}

// failsOnly: the block ends the function with a non-nil error (the whole operation fails:
// nothing is built from a partial scan).
func failsOnly(b *ssa.BasicBlock) bool {
	ret, ok := b.Instrs[len(b.Instrs)-1].(*ssa.Return)
	if !ok || len(ret.Results) == 0 {
		return false
	}
	last := ret.Results[len(ret.Results)-1]
	return isErrorType(last.Type()) && errKnownNonNil(last, b)
}

// passesOnCallError: the error the block returns is (or wraps) the error result of a call - an
// operation failed - rather than an error made up on the spot or a sentinel (a verdict on data).
func passesOnCallError(b *ssa.BasicBlock) bool {
	ret, ok := b.Instrs[len(b.Instrs)-1].(*ssa.Return)
	if !ok || len(ret.Results) == 0 {
		return false
	}
	seen := map[ssa.Value]bool{}
	var from func(v ssa.Value, d int) bool
	from = func(v ssa.Value, d int) bool {
		if d > 6 || seen[v] {
			return false
		}
		seen[v] = true
		switch x := v.(type) {
		case *ssa.Extract:
			_, isCall := x.Tuple.(*ssa.Call)
			return isCall && isErrorType(x.Type())
		case *ssa.Call:
			n := calleeName(x.Common())
			if n == "errors.New" {
				return false
			}
			if n == "fmt.Errorf" || n == "errors.Join" {
				for _, a := range x.Call.Args {
					if from(a, d+1) {
						return true
					}
				}
				return false
			}
			return isErrorType(x.Type())
		case *ssa.MakeInterface:
			return from(x.X, d+1)
		case *ssa.Slice:
			return from(x.X, d+1)
		case *ssa.Alloc:
			// the variadic argument array of fmt.Errorf
			if x.Referrers() != nil {
				for _, r := range *x.Referrers() {
					if ia, ok := r.(*ssa.IndexAddr); ok && ia.Referrers() != nil {
						for _, u := range *ia.Referrers() {
							if st, ok := u.(*ssa.Store); ok && from(st.Val, d+1) {
								return true
							}
						}
					}
				}
			}
			return false
		case *ssa.Phi:
			for _, e := range x.Edges {
				if !from(e, d+1) {
					return false
				}
			}
			return len(x.Edges) > 0
		case *ssa.UnOp:
			// a named result or local holding the error of a call
			if al, ok := x.X.(*ssa.Alloc); ok && x.Op == token.MUL && al.Referrers() != nil {
				for _, r := range *al.Referrers() {
					if st, ok := r.(*ssa.Store); ok && st.Addr == ssa.Value(al) && from(st.Val, d+1) {
						return true
					}
				}
			}
		}
		return false
	}
	return from(ret.Results[len(ret.Results)-1], 0)
}

// handlerRunners: the functions of f's package that f calls statically and that call function
// values (run the handlers handed to them).
func (c *Ctx) handlerRunners(f *ssa.Function) map[*ssa.Function]bool {
	out := map[*ssa.Function]bool{}
	for _, ci := range callsIn(f, func(_ string, cc *ssa.CallCommon) bool { return cc.StaticCallee() != nil }) {
		g := core.Origin(ci.Common().StaticCallee())
		if g == f || g.Parent() != nil || core.FnPkg(g) == nil || core.FnPkg(f) == nil || core.FnPkg(g).Pkg != core.FnPkg(f).Pkg {
			continue
		}
		if len(dynamicCallsWithClosures(g)) > 0 {
			out[g] = true
		}
	}
	return out
}
