package rules

import (
	"strings"

	"gmcheck/core"

	"golang.org/x/tools/go/ssa"
)

func filterObs(obs []core.Ob, keep func(o core.Ob) bool) []core.Ob {
	var out []core.Ob
	for _, o := range obs {
		if keep(o) {
			out = append(out, o)
		}
	}
	return out
}

func init() {
	Props["C01"] = PropDef{
		Explanation: "R-NOBUF call-graph reachability; T-ENDIAN / T-DISPATCH (+ clause consistency) / T-KIND / T-NATURAL / T-TAGWIDTH table extraction from syntax and SSA; T-BITFIELD bit-range disjointness; R-RAWREAD one-byte adapter; R-NOALIAS append ownership; T-KIND emptiness coverage; R-ORDER exact-before-fold; R-SIBLING list element tag; R-LENPREFIX payload on every path; R-REFLKIND zero Value; R-REFLKIND set-exact-type; R-TRUNC length prefix; T-KIND array containers; R-MARSHALER wrapper and array tag; T-KIND map keys are tested before a reflected map is written. Decided: No read-ahead primitive is reachable from the decode entry points and the byte adapter delivers a byte only when one was read; fixed-width codecs are big-endian and move the width of their tag (clauses and width tables); tag dispatches are complete, self-consistent and reject unknown ids and bare TagEnd; the kind->tag mapping is the documented table, accepted back, and omitempty decides every encodable kind; the field-index cache does not alias and is keyed by exact names, which are asked before any case-insensitive match; every list element is written with the tag of the list header (or refused), an array payload is built on every path, no Type() of a possibly zero Value. Decoded values for arbitrary documents and struct-tag option parsing are not decided.",
		Run: func(c *Ctx) []core.Ob {
			obs := c.NoReadAhead()
			obs = append(obs, c.Endian()...)
			obs = append(obs, c.TagDispatch("nbt", "nbt/dynbt")...)
			obs = append(obs, c.KindTables()...)
			obs = append(obs, c.NaturalTypes()...)
			obs = append(obs, c.OmitEmptyTestsField()...)
			obs = append(obs, c.EmptinessCoversKinds()...)
			obs = append(obs, c.AppendOwnership("nbt", "nbt/dynbt")...)
			obs = append(obs, c.TagWidths("nbt", "nbt/dynbt")...)
			obs = append(obs, c.ClauseConsistency("nbt", "nbt/dynbt")...)
			obs = append(obs, c.ExactBeforeFold("nbt", "nbt.(*Decoder).unmarshal")...)
			obs = append(obs, c.ListElementTag("nbt")...)
			obs = append(obs, c.PayloadOnEveryPath("nbt")...)
			obs = append(obs, c.ZeroValueType("nbt")...)
			obs = append(obs, c.MarshalerWrapper("nbt")...)
			obs = append(obs, c.ArrayTagFromPlainElements("nbt.getTagType")...)
			obs = append(obs, c.LengthPrefixNarrowing("nbt", "nbt/dynbt")...)
			obs = append(obs, c.SetExactType("nbt", "nbt.(*Decoder).unmarshal")...)
			obs = append(obs, filterObs(c.RawRead(), func(o core.Ob) bool { return strings.HasPrefix(o.Key, "nbt.") || strings.HasPrefix(o.Key, "nbt/") })...)
			obs = append(obs, c.MapKeyKindChecked("nbt")...)
			return obs
		},
	}
	Props["C02"] = PropDef{
		Explanation: "R-REFLKIND kind-set refinement; T-KIND / T-NATURAL tables; R-NOMUT; R-MARSHALER; R-NOALIAS (append ownership, fresh element per iteration); T-TAGWIDTH; R-TRUNC copy-into-fixed; R-ORDER exact-before-fold; R-SIBLING list element tag; R-LENPREFIX payload on every path; R-REFLKIND zero Value; R-ESCAPE pass order; R-REFLKIND set-exact-type; R-TRUNC length prefix; T-KIND array containers; R-MARSHALER wrapper and array tag; R-RESET a carrier's appended-to slices start empty. Decided: Encoding cannot panic in a reflect accessor for any kind the table routes to it (nor in Type() of a nil element), writes nothing through its input, every kind it accepts has an accepting decoder case, custom marshalers keep the stream aligned, decoded map/list elements and cached index paths do not share memory, headers are not cut to a fixed buffer, list elements carry the header's tag, exact field names win over case-insensitive matches. Value equality after the round trip is not decided.",
		Run: func(c *Ctx) []core.Ob {
			obs := c.ReflKind()
			obs = append(obs, c.KindTables()...)
			obs = append(obs, c.NoMutation()...)
			obs = append(obs, c.NaturalTypes()...)
			obs = append(obs, filterObs(c.MarshalerContract(), func(o core.Ob) bool { return strings.HasPrefix(o.Key, "nbt") })...)
			obs = append(obs, c.AppendOwnership("nbt", "nbt/dynbt")...)
			obs = append(obs, c.FreshElements("nbt", "nbt/dynbt")...)
			obs = append(obs, c.FixedBufferCopies("nbt", "nbt/dynbt")...)
			obs = append(obs, c.TagWidths("nbt", "nbt/dynbt")...)
			obs = append(obs, c.ExactBeforeFold("nbt", "nbt.(*Decoder).unmarshal")...)
			obs = append(obs, c.ListElementTag("nbt")...)
			obs = append(obs, c.PayloadOnEveryPath("nbt")...)
			obs = append(obs, c.ZeroValueType("nbt")...)
			obs = append(obs, c.MarshalerWrapper("nbt")...)
			obs = append(obs, c.ArrayTagFromPlainElements("nbt.getTagType")...)
			obs = append(obs, c.LengthPrefixNarrowing("nbt", "nbt/dynbt")...)
			obs = append(obs, c.SetExactType("nbt", "nbt.(*Decoder).unmarshal")...)
			obs = append(obs, c.EscapePassOrder("nbt")...)
			obs = append(obs, c.AppendTargetsTruncated("UnmarshalNBT", "nbt/dynbt")...)
			return obs
		},
	}
	Props["C04"] = PropDef{
		Explanation: "T-SNBTSUF writer tables vs parser classifier; T-DISPATCH; T-SCANSTATE detour states; R-TRUNC rune-to-byte; R-GUARD string indexes; R-PANIC; R-TLG loop bounds; T-SNBT float format ('f', -1), print range against the parser's width (R-TLG interval), bare-string decisions, text through the literal parser; T-SCANSTATE delegated skip-space; R-ORDER text entry checks end of input; R-ESCAPE pass order; T-SNBT suffix strip and written tag (R-TLG case splits); T-SCANSTATE literal-after-begin and escape set; T-SCANSTATE a scan error is recorded where it is answered, a delegating state makes the continuing state current. Decided: What the text writer emits for each tag is classified back to the same tag: suffix tables, array prefixes, integers inside the signed range their parser accepts, floats in the shortest exact decimal without exponent, strings left bare only where emptiness and number-likeness were decided, escapes written in one pass; escape states of the scanner return to the string state they left and a delegated end-of-value state makes itself current across blanks; input text becomes a string only where the literal parser has classified it; the text entry point reports success only after the end of the input was checked; quoting decisions look at bytes, not truncated runes; no unguarded index into a possibly empty string; no untriaged explicit panic reachable from text input. The scanner's accepted language as a whole is not decided.",
		Run: func(c *Ctx) []core.Ob {
			obs := c.SNBTSuffix()
			obs = append(obs, c.SNBTLiteralWidths()...)
			obs = append(obs, c.RuneTruncation("nbt")...)
			obs = append(obs, c.ScannerDetours("nbt")...)
			obs = append(obs, c.SNBTFloatFormat("nbt")...)
			obs = append(obs, c.SNBTTextThroughParser("nbt")...)
			obs = append(obs, c.SNBTBareStrings("nbt")...)
			obs = append(obs, c.SNBTPrintRange("nbt")...)
			obs = append(obs, c.SNBTSuffixStrip()...)
			obs = append(obs, c.SNBTWrittenTagReturned("nbt")...)
			obs = append(obs, c.SNBTLiteralAfterBegin("nbt")...)
			obs = append(obs, c.ScannerEscapeSet("nbt")...)
			obs = append(obs, c.ScannerDelegatedSkip("nbt")...)
			obs = append(obs, c.ScannerErrorRecorded("nbt")...)
			obs = append(obs, c.ScannerDelegateMakesCurrent("nbt")...)
			obs = append(obs, c.TextEntryEOF("nbt.(StringifiedMessage).MarshalNBT")...)
			obs = append(obs, c.EscapePassOrder("nbt")...)
			obs = append(obs, c.StringIndexGuards(pkgPred("nbt"))...)
			textDispatch := ""
			if ws := c.dispatchOf("StringifiedMessage", false); ws != nil {
				textDispatch = ws.fn
			}
			obs = append(obs, filterObs(c.TagDispatch("nbt"), func(o core.Ob) bool {
				return strings.Contains(o.Key, "StringifiedMessage") || (textDispatch != "" && strings.HasPrefix(o.Key, textDispatch+"#"))
			})...)
			// scope: what the exported text entry points reach inside package nbt (call graph, not names)
			var rootNames []string
			for _, fn := range c.Funcs() {
				n := core.FnName(fn)
				if inPkgs(fn, "nbt") && fn.Parent() == nil && fn.Object() != nil && fn.Object().Exported() &&
					(recvTypeName(n) == "StringifiedMessage" || n == "nbt.(RawMessage).String") {
					rootNames = append(rootNames, n)
				}
			}
			in := c.reachPred(rootNames, "nbt")
			var roots []*ssa.Function
			for _, r := range c.DecoderRoots() {
				n := core.FnName(r)
				if strings.Contains(n, "StringifiedMessage") || n == "nbt.(RawMessage).String" {
					roots = append(roots, r)
				}
			}
			pk := pkgPred("nbt")
			obs = append(obs, c.Panics(c.Verif, roots, pk, pk)...)
			obs = append(obs, c.TLGObs(in, in, true)...)
			return obs
		},
	}
	Props["C10"] = PropDef{
		Explanation: "R-ORIGIN value-origin of the cipher streams; R-NOALIAS constructor parameters; T-CONNINIT; R-GUARD block-slices on an inlined view; R-RING position advanced only behind the wrap test, scratch use of the register buffer only after the last use of the window. Decided: The connection decrypts what it reads and encrypts what it writes with streams built over the same block and IV, directly on the socket; the CFB8 constructors keep no caller memory; every slice by the block size in XORKeyStream is behind a length gate on that slice; the ring position is advanced only where it was found different from twice the block size, and the register buffer is overwritten as scratch space only where no use of the register window can follow. Whether XORKeyStream equals AES-CFB8 is not decided.",
		Run: func(c *Ctx) []core.Ob {
			obs := c.CipherWiring()
			obs = append(obs, c.NoRetainedParamSlices("net/CFB8")...)
			obs = append(obs, c.BlockSlices("net/CFB8")...)
			obs = append(obs, c.CFB8Ring("net/CFB8")...)
			obs = append(obs, c.ConnInit()...)
			return obs
		},
	}
	Props["C11"] = PropDef{
		Explanation: "R-GUARD range facts proven by the R-TLG interpreter at every access of the packed data; R-ORDER for Fix / NewBitStorage / ReadFrom exact length; T-BSINV inverse of the size function; R-WIRESYM/R-TLG for the wire form; T-BSFIX every width-derived field refreshed by Fix; R-ACCEPT announced length admits a 4096x32-bit array; T-BSINV direct width (registry size read from the tree) and width-from-saved-longs; R-ORDER a refused Fix changes nothing. Decided: Rejected calls cannot have modified storage, zero-width storages return before dividing, wrong raw lengths are refused, ReadFrom gives the array exactly the announced length and refuses no length a 4096-entry storage can have, Fix re-assigns every scalar field the constructor derives from the width, the width recovered from a raw length packs as many values per long as the width it was sized for and is exact for the direct width (two known findings). The index arithmetic itself is not decided.",
		Run: func(c *Ctx) []core.Ob {
			obs := c.BitStorageGuards()
			obs = append(obs, c.BitStorageFixSibling()...)
			obs = append(obs, c.BitStorageDerivedRefreshed()...)
			obs = append(obs, c.FixRefusalChangesNothing()...)
			obs = append(obs, c.BitWidthInverse()...)
			obs = append(obs, c.BitStorageReadLength()...)
			obs = append(obs, filterObs(c.AcceptsLegitLengths(), func(o core.Ob) bool { return strings.Contains(o.Key, "BitStorage") })...)
			obs = append(obs, c.wireObs(func(p, t string) bool { return p == "level" && t == "BitStorage" })...)
			in := c.reachFromTypes("level", []string{"BitStorage"}, "NewBitStorage")
			obs = append(obs, c.TLGObs(in, in, false)...)
			return obs
		},
	}
}
