package rules

import (
	"fmt"
	"go/constant"
	"go/types"
	"math/big"
	"os"
	"sort"
	"strings"

	"gmcheck/core"

	"golang.org/x/tools/go/ssa"
)

func yes(*ssa.Function) bool { return true }

func pkgPred(pkgs ...string) func(*ssa.Function) bool {
	return func(fn *ssa.Function) bool { return inPkgs(fn, pkgs...) }
}

// methodsOf: functions whose receiver is one of the named types of pkg.
func recvPred(pkg string, typeNames ...string) func(*ssa.Function) bool {
	return func(fn *ssa.Function) bool {
		if !inPkgs(fn, pkg) {
			return false
		}
		f := core.Origin(fn)
		for f.Parent() != nil {
			f = f.Parent()
		}
		r := f.Signature.Recv()
		if r == nil {
			return false
		}
		n, ok := types.Unalias(deref(r.Type())).(*types.Named)
		if !ok {
			return false
		}
		for _, t := range typeNames {
			if n.Obj().Name() == t {
				return true
			}
		}
		return false
	}
}

// reachPred: functions reachable (VTA) from the named roots, restricted to pkgs.
func (c *Ctx) reachPred(rootNames []string, pkgs ...string) func(*ssa.Function) bool {
	var roots []*ssa.Function
	for _, n := range rootNames {
		f := c.Fn(n)
		if f == nil {
			c.Notes = append(c.Notes, "root not found: "+n)
			continue
		}
		roots = append(roots, c.instancesOf(f)...)
	}
	reach := c.Reach(roots, func(g *ssa.Function) bool { return inPkgs(g, pkgs...) })
	set := map[*ssa.Function]bool{}
	for f := range reach {
		set[core.Origin(f)] = true
	}
	if os.Getenv("GMCHECK_REACH_DEBUG") != "" {
		fmt.Printf("reachPred: %d root names, %d root instances, %d reached\n", len(rootNames), len(roots), len(set))
		for f := range set {
			fmt.Printf("   %s\n", core.FnName(f))
		}
	}
	return func(fn *ssa.Function) bool {
		f := core.Origin(fn)
		for f.Parent() != nil {
			f = f.Parent()
		}
		return set[f]
	}
}

// reachFromTypes: the functions of pkg reachable (call graph) from the methods of
// the named (exported) types of pkg and from the named functions - a scope that
// follows code into helpers, generic functions and renamed internals.
func (c *Ctx) reachFromTypes(pkg string, typeNames []string, funcNames ...string) func(*ssa.Function) bool {
	var roots []string
	want := map[string]bool{}
	for _, t := range typeNames {
		want[t] = true
	}
	for _, fn := range c.Funcs() {
		if !inPkgs(fn, pkg) || fn.Parent() != nil {
			continue
		}
		if want[recvTypeName(core.FnName(fn))] {
			roots = append(roots, core.FnName(fn))
		}
	}
	for _, f := range funcNames {
		roots = append(roots, pkg+"."+f)
	}
	return c.reachPred(roots, pkg)
}

// implementersOf: the named types of pkg that implement the interface type of
// the given field of an exported struct of pkg (e.g. the palette kinds).
func (c *Ctx) implementersOf(pkg, structName string, isIface func(*types.Var) bool) []string {
	pk := c.P.Pkg(pkg)
	if pk == nil {
		return nil
	}
	tn, _ := pk.Types.Scope().Lookup(structName).(*types.TypeName)
	if tn == nil {
		return nil
	}
	st, _ := tn.Type().Underlying().(*types.Struct)
	if st == nil {
		return nil
	}
	var out []string
	for i := 0; i < st.NumFields(); i++ {
		f := st.Field(i)
		it, ok := f.Type().Underlying().(*types.Interface)
		if !ok || !isIface(f) {
			continue
		}
		for _, name := range pk.Types.Scope().Names() {
			cand, ok := pk.Types.Scope().Lookup(name).(*types.TypeName)
			if !ok || cand == tn {
				continue
			}
			if _, isI := cand.Type().Underlying().(*types.Interface); isI {
				continue
			}
			// generic types: compare method names (instantiation-independent)
			ms := types.NewMethodSet(types.NewPointer(cand.Type()))
			all := it.NumMethods() > 0
			for j := 0; j < it.NumMethods(); j++ {
				if ms.Lookup(cand.Pkg(), it.Method(j).Name()) == nil {
					all = false
				}
			}
			if all {
				out = append(out, name)
			}
		}
	}
	return out
}

// rootMissing turns an unresolved root into a failing obligation.
func (c *Ctx) rootObs(rule string, names ...string) []core.Ob {
	var obs []core.Ob
	for _, n := range names {
		ob := core.Ob{Rule: rule, Key: "root:" + n, Armed: true, Want: "analysis root " + n + " resolves to a function of the module"}
		if f := c.Fn(n); f != nil {
			ob.Status = core.OK
			ob.Pos = c.P.Pos(f.Pos())
		} else {
			ob.Status = core.Violated
			ob.Got = "not found (renamed or removed): the rule would analyse nothing"
		}
		obs = append(obs, ob)
	}
	return obs
}

// constValue looks up an integer constant of a module package.
func (c *Ctx) constValue(pkg, name string) (*big.Int, bool) {
	p := c.P.Pkg(pkg)
	if p == nil {
		return nil, false
	}
	k, ok := p.Types.Scope().Lookup(name).(*types.Const)
	if !ok || k.Val().Kind() != constant.Int {
		return nil, false
	}
	v, ok := new(big.Int).SetString(k.Val().ExactString(), 10)
	return v, ok
}

// frameMaxObs: C07 — every payload allocation on the frame-unpacking paths is
// bounded by the protocol maximum.
func (c *Ctx) frameMaxObs() []core.Ob {
	var obs []core.Ob
	max, ok := c.constValue("net/packet", "MaxDataLength")
	if !ok {
		return []core.Ob{{Rule: "R-TLG-MAX", Key: "const:MaxDataLength", Status: core.Violated, Armed: true,
			Want: "the protocol maximum is a named constant of net/packet", Got: "constant MaxDataLength not found"}}
	}
	in := c.reachPred([]string{"net/packet.(*Packet).UnPack"}, "net/packet")
	t := c.TLG()
	for _, s := range t.Sinks {
		if !in(s.Fn) || !(strings.HasPrefix(s.Kind, "make(") || strings.HasPrefix(s.Kind, "inflate")) {
			continue
		}
		ob := core.Ob{Rule: "R-TLG-MAX", Key: s.Key() + "<=MaxDataLength", Pos: c.P.Pos(s.Pos), Func: core.FnName(s.Fn), Armed: true,
			Want: fmt.Sprintf("peer-derived payload allocation size <= MaxDataLength (%s) on every path", max)}
		if s.AV.T != nil && s.AV.T.Hi != nil && s.AV.T.Hi.Cmp(max) <= 0 {
			ob.Status = core.OK
			ob.Got = s.AV.String()
		} else if got, ok := c.sizeBoundedAtCallers(s, in, max); ok {
			// a shared helper (resize(s, n)) that is handed the size: what matters is what the frame
			// reader hands it, not what other decoders of the package do
			ob.Status = core.OK
			ob.Got = got
		} else {
			ob.Status = core.Violated
			ob.Got = "size " + s.AV.String() + "; source: " + s.Src
		}
		obs = append(obs, ob)
	}
	return obs
}

func init() {
	Props["C03"] = PropDef{
		Explanation: "R-TLG interval + taint forward dataflow on go/ssa with branch refinement, symbolic cap/len bounds and interprocedural summaries; R-PANIC triage; T-DISPATCH; R-PROGRESS; R-GUARD sign-check-before-success and string indexes; R-RAWREAD; R-UNKTAG list element tag refused also for the empty list (R-TLG case split on the tag byte, feasible edges); R-UNKTAG non-empty TAG_End list refused; R-REFLKIND interface targets have no methods; R-PANIC nil pointer destination refused. Decided: Every integer decoded from the input in nbt and nbt/dynbt is proven in range before make / MakeSlice / slice bound / index / CopyN / divisor / loop bound / fixed-width accessor; sign tests lie on every path to a success exit; element loops make progress; reads are full reads and a byte adapter never invents a byte; explicit panics are triaged; a list header with an unknown element tag is refused on every path, also when no element is decoded. A structural necessary condition of totality, not a proof of it.",
		Run: func(c *Ctx) []core.Ob {
			in := pkgPred("nbt", "nbt/dynbt")
			obs := c.TLGObs(in, in, true)
			var roots []*ssa.Function
			for _, r := range c.DecoderRoots() {
				if in(r) {
					roots = append(roots, r)
				}
			}
			obs = append(obs, c.Panics(c.Verif, roots, in, in)...)
			obs = append(obs, c.TagDispatch("nbt", "nbt/dynbt")...)
			obs = append(obs, c.ListProgress()...)
			obs = append(obs, c.UnknownListTagRefused("nbt", "nbt/dynbt")...)
			obs = append(obs, c.InterfaceAndNilTargets("nbt")...)
			// a prefix is not taken for a document: read errors (io.EOF included) are not dropped
			obs = append(obs, c.ErrFlow(in, in)...)
			obs = append(obs, c.SignCheckBeforeSuccess(in)...)
			obs = append(obs, filterObs(c.RawRead(), func(o core.Ob) bool { return strings.HasPrefix(o.Key, "nbt.") || strings.HasPrefix(o.Key, "nbt/") })...)
			obs = append(obs, c.StringIndexGuards(in)...)
			obs = append(obs, c.rootObs("R-TLG", "nbt.(*Decoder).Decode", "nbt/dynbt.(*Value).UnmarshalNBT", "nbt.(*StringifiedMessage).UnmarshalNBT", "nbt.(*RawMessage).UnmarshalNBT")...)
			return obs
		},
	}
	Props["C08"] = PropDef{
		Explanation: "R-TLG over every decoder root of the module; R-PANIC reachability triage; nil-guard of func-typed fields; guarded NewBitStorage calls; R-GUARD string indexes; T-PALCFG width bounds; R-TLG sinks armed in the bot's packet handlers; R-RECV a decoding method with a value receiver assigns nothing to its receiver's fields; R-PANIC optional pointer fields of chat/sign and bot/msg. Decided: Every peer-derived length/count/index reaching a crash sink is proven in range on all paths in the decoders of the enumerated packages; explicit panics reachable from decoder roots are triaged; palette widths from the wire never exceed a machine word. Implicit panics outside these classes are not decided.",
		Run: func(c *Ctx) []core.Ob {
			armed := pkgPred("net/packet", "level", "chat", "registry", "server/command", "net", "nbt", "nbt/dynbt")
			// ... and the bot's packet handlers themselves (functions of bot/... that are handed the received
			// packet): what they scan out of it is peer-controlled where they use it
			inLib := armed
			handler := func(fn *ssa.Function) bool {
				if !inPkgs(fn, "bot/...") {
					return false
				}
				for _, p := range fn.Params {
					if isNamed(p.Type(), core.ModPath+"/net/packet", "Packet") {
						return true
					}
				}
				return false
			}
			obs := c.TLGObs(yes, func(fn *ssa.Function) bool { return inLib(fn) || handler(fn) }, false)
			obs = append(obs, c.Panics(c.Verif, c.DecoderRoots(), yes, armed)...)
			obs = append(obs, c.FuncFieldCalls(yes, armed)...)
			obs = append(obs, c.ValueReceiverDecoders(yes)...)
			obs = append(obs, c.OptionalPointerDerefs("chat/sign", "bot/msg")...)
			obs = append(obs, c.StringIndexGuards(armed)...)
			obs = append(obs, c.StringVarIndexGuards(armed)...)
			obs = append(obs, c.PaletteConfig()...)
			obs = append(obs, c.GuardedCalls("level.NewBitStorage", 2, c.NetworkRoots(), yes, armed)...)
			obs = append(obs, c.rootObs("R-TLG", "net/packet.(*Packet).UnPack", "net/packet.(*String).ReadFrom", "net/packet.(*ByteArray).ReadFrom", "net/packet.(*BitSet).ReadFrom",
				"net/packet.(Ary).ReadFrom", "level.(*BitStorage).ReadFrom", "level.(*PaletteContainer).ReadFrom", "level.(*Chunk).ReadFrom", "registry.(*Registry).ReadFrom", "registry.(*Registry).ReadTagsFrom")...)
			return obs
		},
	}
	Props["C07"] = PropDef{
		Explanation: "R-TLG + R-TLG-MAX on the frame reader; R-POOL; R-ORDER unpack-success-assigns and threshold plumbing; T-CONNINIT; T-VARLEN; R-RAWREAD; R-ERRFLOW; R-NOBUF; R-ACCEPT the frame-length bound admits the largest accepted payload; R-TLG-MAX id-counts (case split on the frame length: id plus payload within the maximum). Decided: Every declared length is sign-checked and bounded by the protocol maximum before CopyN / allocation / re-slice, and the bound on the frame length is not below what the largest accepted payload needs; a successful UnPack has stored ID and Data on every path; pooled buffers do not escape; every Conn starts uncompressed on the bare socket; frame length fields use the LEB128 length. A plain frame whose id plus payload exceed the maximum is refused. Round-trip equality and zlib conformance are not decided.",
		Run: func(c *Ctx) []core.Ob {
			in := c.reachPred([]string{"net/packet.(*Packet).UnPack", "net/packet.(*Packet).Pack"}, "net/packet")
			obs := c.TLGObs(in, in, false)
			obs = append(obs, c.frameMaxObs()...)
			obs = append(obs, c.FrameMaximumCountsID()...)
			obs = append(obs, filterObs(c.AcceptsLegitLengths(), func(o core.Ob) bool { return strings.Contains(o.Key, "net/packet") })...)
			obs = append(obs, c.Pools("net/packet")...)
			obs = append(obs, c.ThresholdPlumbing()...)
			obs = append(obs, c.UnpackAssigns()...)
			obs = append(obs, c.ConnInit()...)
			obs = append(obs, c.VarLen()...)
			obs = append(obs, filterObs(c.RawRead(), func(o core.Ob) bool {
				return strings.HasPrefix(o.Key, "net/packet.") || strings.HasPrefix(o.Key, "net.")
			})...)
			obs = append(obs, c.ErrFlow(in, in)...)
			obs = append(obs, filterObs(c.NoReadAhead(), func(o core.Ob) bool { return strings.Contains(o.Key, "packet") || o.Key == "scope" })...)
			obs = append(obs, c.rootObs("R-TLG", "net/packet.(*Packet).UnPack", "net/packet.(*Packet).Pack")...)
			return obs
		},
	}
}

// sizeBoundedAtCallers: the allocation size of sink s is a parameter of its function; at every call
// site of that function in scope the argument is peer-derived with an upper bound <= max (or not
// peer-derived at all).
func (c *Ctx) sizeBoundedAtCallers(s *Sink, in func(*ssa.Function) bool, max *big.Int) (string, bool) {
	ms, ok := s.In.(*ssa.MakeSlice)
	if !ok {
		return "", false
	}
	prm, ok := stripConv(ms.Len).(*ssa.Parameter)
	if !ok {
		return "", false
	}
	pi := -1
	for i, q := range s.Fn.Params {
		if q == prm {
			pi = i
		}
	}
	if pi < 0 {
		return "", false
	}
	t := c.TLG()
	sites, good := 0, true
	var got []string
	for _, f := range c.Funcs() {
		if !in(f) || f == s.Fn || len(f.Blocks) == 0 {
			continue
		}
		has := false
		for _, b := range f.Blocks {
			for _, x := range b.Instrs {
				if ci, ok := x.(ssa.CallInstruction); ok && ci.Common().StaticCallee() != nil && core.Origin(ci.Common().StaticCallee()) == core.Origin(s.Fn) {
					has = true
				}
			}
		}
		if !has {
			continue
		}
		t.Probe(f, func(x ssa.Instruction, eval func(ssa.Value) AV, _ func(string) (AV, bool)) {
			ci, ok := x.(ssa.CallInstruction)
			if !ok || ci.Common().StaticCallee() == nil || core.Origin(ci.Common().StaticCallee()) != core.Origin(s.Fn) || pi >= len(ci.Common().Args) {
				return
			}
			sites++
			av := eval(ci.Common().Args[pi])
			if av.T != nil && (av.T.Hi == nil || av.T.Hi.Cmp(max) > 0) {
				good = false
			}
			got = append(got, core.FnName(f)+": "+av.String())
		})
	}
	if sites == 0 || !good {
		return "", false
	}
	sort.Strings(got)
	return "the size is a parameter of " + core.FnName(s.Fn) + "; bounded at its call sites in the frame reader: " + strings.Join(got, "; "), true
}
