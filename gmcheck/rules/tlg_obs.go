package rules

import (
	"strings"

	"gmcheck/core"

	"golang.org/x/tools/go/ssa"
)

// TLGObs turns the sinks of R-TLG into obligations. armed decides whether an
// open obligation in fn can fail the property; kinds restricts the sink kinds
// (nil = all but "loop").
func (c *Ctx) TLGObs(include func(fn *ssa.Function) bool, armed func(fn *ssa.Function) bool, withLoop bool) []core.Ob {
	t := c.TLG()
	var obs []core.Ob
	for _, s := range t.Sinks {
		if !include(s.Fn) {
			continue
		}
		if s.Kind == "loop" && !withLoop {
			continue
		}
		if strings.HasPrefix(s.Kind, "inflate") {
			continue // evaluated against the protocol maximum by R-TLG-MAX
		}
		ob := core.Ob{Rule: "R-TLG", Key: s.Key(), Pos: c.P.Pos(s.Pos), Func: core.FnName(s.Fn), Want: s.Want,
			Got: s.Got + "; source: " + s.Src, Armed: armed(s.Fn)}
		if s.OK {
			ob.Status = core.OK
		} else {
			ob.Status = core.Violated
			if s.Mixed {
				// the peer-derived part is combined with a program value the analysis
				// cannot bound: the rule cannot decide this use (stated in DESIGN 3/R-TLG)
				ob.Armed = false
				ob.Got += " [undecidable here: mixed with an unbounded program-supplied operand]"
			}
			if s.Undecided != "" {
				ob.Armed = false
				ob.Got += " [undecided here: " + s.Undecided + "]"
			}
		}
		obs = append(obs, ob)
	}
	return obs
}
