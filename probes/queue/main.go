package main

import (
	"fmt"
	"time"

	"github.com/Tnze/go-mc/net/queue"
)

func main() {
	q := queue.NewLinkedQueue[int]()
	q.Push(1)
	q.Close()
	func() {
		defer func() { recover() }()
		q.Push(2) // panics: push on closed queue
	}()
	done := make(chan struct{})
	go func() { q.Pull(); close(done) }()
	select {
	case <-done:
		fmt.Println("Pull returned: ok")
	case <-time.After(2 * time.Second):
		fmt.Println("DEADLOCK: Pull blocked forever after a recovered Push-on-closed panic (lock leaked)")
	}
}
