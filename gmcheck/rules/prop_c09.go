package rules

import "gmcheck/core"

func init() {
	Props["C09"] = PropDef{
		Explanation: "R-RAWREAD: every direct Read([]byte) method call in the module is a forwarding Read wrapper or a one-byte read whose count is used; all other reads go through full-read primitives. R-ERRFLOW on nbt, nbt/dynbt, net/packet, net: the error of every call is looked at unless the callee writes to an in-memory sink, and on the err != nil edge of the plain failure idiom the function returns a non-nil error. R-NOBUF: no buffering reader / read-to-EOF (which cannot detect a short body) on the decode paths.",
		Run: func(c *Ctx) []core.Ob {
			var obs []core.Ob
			obs = append(obs, c.RawRead()...)
			in := pkgPred("nbt", "nbt/dynbt", "net/packet", "net")
			obs = append(obs, c.ErrFlow(in, in)...)
			obs = append(obs, c.NoReadAhead()...)
			return obs
		},
	}
}
