package rules

import (
	"fmt"
	"go/constant"
	"go/token"
	"go/types"
	"sort"
	"strings"

	"gmcheck/core"

	"golang.org/x/tools/go/ssa"
)

// sumConsts: v = (something non-constant) + K: returns K (sum of the constant
// addends) and whether a len(...) term is present.
func sumConsts(v ssa.Value) (k int64, hasLen bool, ok bool) {
	v = stripConv(v)
	switch x := v.(type) {
	case *ssa.Const:
		n, ok := constIntVal(x)
		return n, false, ok
	case *ssa.BinOp:
		if x.Op != token.ADD && x.Op != token.SUB {
			return 0, false, false
		}
		a, la, oka := sumConsts(x.X)
		b, lb, okb := sumConsts(x.Y)
		if !oka || !okb {
			return 0, false, false
		}
		if x.Op == token.SUB {
			if lb {
				return 0, false, false
			}
			b = -b
		}
		return a + b, la || lb, true
	case *ssa.Call:
		// len(...) or another computed value (a decoded length): the variable term
		return 0, true, true
	case *ssa.Parameter, *ssa.Extract, *ssa.Phi:
		return 0, true, true
	case *ssa.UnOp:
		if x.Op == token.MUL {
			// a loaded variable: treated as the variable term
			return 0, true, true
		}
	}
	return 0, false, false
}

// RCONFrame implements T-RCONFRAME and the rcon part of T-ENDIAN.
func (c *Ctx) RCONFrame() []core.Ob {
	mk := func(key, want string, fn *ssa.Function) core.Ob {
		o := core.Ob{Rule: "T-RCONFRAME", Key: key, Want: want, Armed: true, Status: core.OK}
		if fn != nil {
			o.Pos, o.Func = c.P.Pos(fn.Pos()), core.FnName(fn)
		}
		return o
	}
	w, r := c.Fn("net.(*RCONConn).WritePacket"), c.Fn("net.(*RCONConn).ReadPacket")
	if w == nil || r == nil {
		o := mk("functions", "RCONConn.WritePacket and ReadPacket exist", nil)
		o.Status, o.Got = core.Violated, "not found"
		return []core.Ob{o}
	}
	var obs []core.Ob
	// ---- writer: the []any literal
	type el struct {
		idx   int64
		width int64 // -1 dynamic
		val   ssa.Value
	}
	widthOf := func(v ssa.Value) int64 {
		switch t := v.Type().Underlying().(type) {
		case *types.Basic:
			switch t.Kind() {
			case types.Int32, types.Uint32:
				return 4
			case types.Int16, types.Uint16:
				return 2
			case types.Int64, types.Uint64:
				return 8
			case types.Int8, types.Uint8:
				return 1
			case types.String:
				if k, ok := v.(*ssa.Const); ok && k.Value != nil {
					return int64(len(constantString(k)))
				}
			}
		case *types.Slice:
			if sl, ok := v.(*ssa.Slice); ok {
				if a, ok := deref(sl.X.Type()).Underlying().(*types.Array); ok {
					return a.Len()
				}
			}
		}
		return -1
	}
	// the writer's code: WritePacket and the helpers of the package it was split into
	wfns := c.withPkgCallees(w, 2)
	var els, seq []el
	for _, f := range wfns {
		if strings.HasSuffix(core.FnName(f), ".ReadPacket") {
			continue
		}
		for _, b := range f.Blocks {
			for _, in := range b.Instrs {
				switch x := in.(type) {
				case *ssa.Store:
					// form 1: the elements of a []any literal that a loop hands to binary.Write
					ia, ok := x.Addr.(*ssa.IndexAddr)
					if !ok {
						continue
					}
					al, ok := ia.X.(*ssa.Alloc)
					if !ok {
						continue
					}
					arr, ok := deref(al.Type()).Underlying().(*types.Array)
					if !ok {
						continue
					}
					if _, isIface := arr.Elem().Underlying().(*types.Interface); !isIface {
						continue
					}
					idx, ok := constIntVal(ia.Index)
					if !ok {
						continue
					}
					mi, ok := x.Val.(*ssa.MakeInterface)
					if !ok {
						continue
					}
					els = append(els, el{idx: idx, width: widthOf(mi.X), val: mi.X})
				case *ssa.Call:
					// form 2: a sequence of appends / writes, in program order
					cc := x.Common()
					cn := calleeName(cc)
					add := func(width int64, v ssa.Value) {
						seq = append(seq, el{idx: int64(len(seq)), width: width, val: v})
					}
					// put(field) where put is a local closure that hands its parameter to binary.Write
					if g := cc.StaticCallee(); g != nil && g.Parent() != nil {
						for _, gb := range g.Blocks {
							for _, gin := range gb.Instrs {
								gc, ok := gin.(ssa.CallInstruction)
								if !ok || calleeName(gc.Common()) != "encoding/binary.Write" || len(gc.Common().Args) != 3 {
									continue
								}
								for k, p := range g.Params {
									if gc.Common().Args[2] == ssa.Value(p) && k < len(cc.Args) {
										if mi, ok := cc.Args[k].(*ssa.MakeInterface); ok {
											add(widthOf(mi.X), mi.X)
										}
									}
								}
							}
						}
					}
					switch {
					case cn == "encoding/binary.Write" && len(cc.Args) == 3:
						if mi, ok := cc.Args[2].(*ssa.MakeInterface); ok {
							add(widthOf(mi.X), mi.X)
						}
					case strings.HasPrefix(cn, "encoding/binary.(") && strings.Contains(cn, ").AppendUint") && len(cc.Args) >= 3:
						wd := map[string]int64{"AppendUint16": 2, "AppendUint32": 4, "AppendUint64": 8}[cn[strings.LastIndex(cn, ".")+1:]]
						// a loop over a small array literal of words: one element per entry, in index order
						if elems := localArrayElems(cc.Args[len(cc.Args)-1]); len(elems) > 0 {
							for _, ev := range elems {
								add(wd, ev)
							}
						} else {
							add(wd, cc.Args[len(cc.Args)-1])
						}
					case cn == "builtin.append" && len(cc.Args) == 2:
						if bt, ok := cc.Args[0].Type().Underlying().(*types.Slice); ok {
							if eb, ok := bt.Elem().Underlying().(*types.Basic); ok && eb.Kind() == types.Uint8 {
								add(widthOf(cc.Args[1]), cc.Args[1])
							}
						}
					case (cn == "bytes.(Buffer).Write" || cn == "bytes.(Buffer).WriteString") && len(cc.Args) == 2:
						add(widthOf(cc.Args[1]), cc.Args[1])
					}
				}
			}
		}
	}
	if len(els) == 0 {
		els = seq
	}
	sort.Slice(els, func(i, j int) bool { return els[i].idx < els[j].idx })
	wo := mk("writer-layout", "WritePacket emits [int32 length][int32 id][int32 type][payload][2 zero bytes] and the length field counts exactly the bytes that follow it", w)
	var widths []string
	fixedBefore, fixedAfter, dyn := int64(0), int64(0), 0
	for i, e := range els {
		widths = append(widths, fmt.Sprint(e.width))
		if i == 0 {
			continue
		}
		if e.width < 0 {
			dyn++
			continue
		}
		if dyn == 0 {
			fixedBefore += e.width
		} else {
			fixedAfter += e.width
		}
	}
	K, hasLen, okK := int64(0), false, false
	if len(els) > 0 {
		K, hasLen, okK = sumConsts(els[0].val)
	}
	switch {
	case len(els) < 4 || dyn != 1 || els[0].width != 4:
		wo.Status, wo.Got = core.Violated, "element widths ["+strings.Join(widths, ",")+"]: not one 4-byte length, fixed header, one payload, fixed trailer"
	case !okK || !hasLen:
		wo.Status, wo.Got = core.Violated, "the length field is not len(payload) plus a constant"
	case K != fixedBefore+fixedAfter:
		wo.Status, wo.Got = core.Violated, fmt.Sprintf("length field = len(payload)+%d but %d fixed bytes follow it (header %d + trailer %d)", K, fixedBefore+fixedAfter, fixedBefore, fixedAfter)
	default:
		wo.Got = fmt.Sprintf("widths [%s], length = len(payload)+%d", strings.Join(widths, ","), K)
	}
	obs = append(obs, wo)

	// ---- reader: minimum test and slice offsets
	ro := mk("reader-matches-writer", "ReadPacket's minimum length and its slice offsets equal the writer's fixed header (id+type) and trailer sizes", r)
	minC, maxC := int64(-1), int64(-1)
	var lows []int64
	trailer := int64(-1)
	var rblocks []*ssa.BasicBlock
	for _, f := range c.withPkgCallees(r, 2) {
		if strings.HasSuffix(core.FnName(f), ".WritePacket") {
			continue
		}
		rblocks = append(rblocks, f.Blocks...)
	}
	for _, b := range rblocks {
		for _, in := range b.Instrs {
			switch x := in.(type) {
			case *ssa.If:
				if cmp, ok := x.Cond.(*ssa.BinOp); ok {
					if k, ok := constIntVal(cmp.Y); ok {
						// the declared length: a 32-bit integer variable, parameter or decoded value
						isLen32 := false
						if bt, ok := cmp.X.Type().Underlying().(*types.Basic); ok && (bt.Kind() == types.Int32 || bt.Kind() == types.Uint32) {
							switch stripConv(cmp.X).(type) {
							case *ssa.UnOp, *ssa.Parameter, *ssa.Call, *ssa.Extract:
								isLen32 = true
							}
						}
						if isLen32 {
							switch cmp.Op {
							case token.LSS:
								minC = k
							case token.GTR:
								maxC = k
							case token.LEQ:
								minC = k + 1
							case token.GEQ:
								maxC = k - 1
							}
						}
					}
				}
			case *ssa.Slice:
				if _, isStr := x.Type().Underlying().(*types.Basic); isStr {
					continue
				}
				lo := int64(0)
				if x.Low != nil {
					if k, ok := constIntVal(x.Low); ok {
						lo = k
					}
				}
				if x.High != nil {
					if _, ok := constIntVal(x.High); !ok {
						// symbolic high: Length - t
						if kk, hasVar, ok := sumConsts(x.High); ok && hasVar {
							trailer = -kk
							// rest := buf[8:]; rest[:len(rest)-2]: the payload starts where the slices it is cut from start
							for base := x.X; ; {
								inner, ok := base.(*ssa.Slice)
								if !ok {
									break
								}
								if inner.Low != nil {
									if k, ok := constIntVal(inner.Low); ok {
										lo += k
									}
								}
								base = inner.X
							}
							lows = append(lows, lo)
						}
					}
				}
			}
		}
	}
	headerEnd := int64(-1)
	for _, l := range lows {
		if l > headerEnd {
			headerEnd = l
		}
	}
	mx, okMax := c.constValue("net", "MaxRCONPackageSize")
	switch {
	case minC != K:
		ro.Status, ro.Got = core.Violated, fmt.Sprintf("reader rejects lengths below %d, writer's constant part is %d", minC, K)
	case headerEnd != fixedBefore:
		ro.Status, ro.Got = core.Violated, fmt.Sprintf("payload slice starts at %d, writer puts %d header bytes before the payload", headerEnd, fixedBefore)
	case trailer != fixedAfter:
		ro.Status, ro.Got = core.Violated, fmt.Sprintf("payload slice drops %d trailing bytes, writer appends %d", trailer, fixedAfter)
	case !okMax || maxC != mx.Int64():
		ro.Status, ro.Got = core.Violated, fmt.Sprintf("reader's upper bound %d is not MaxRCONPackageSize", maxC)
	default:
		ro.Got = fmt.Sprintf("min %d, max %d, payload = buf[%d:len-%d]", minC, maxC, headerEnd, trailer)
	}
	obs = append(obs, ro)

	// ---- byte order: little-endian everywhere in the RCON codec
	eo := core.Ob{Rule: "T-ENDIAN", Key: "rcon:little-endian", Want: "every encoding/binary use in the RCON reader and writer is little-endian", Armed: true, Status: core.OK, Pos: c.P.Pos(w.Pos())}
	n := 0
	for _, fn := range append(c.withPkgCallees(w, 2), c.withPkgCallees(r, 2)...) {
		for _, b := range fn.Blocks {
			for _, in := range b.Instrs {
				ci, ok := in.(ssa.CallInstruction)
				if !ok {
					continue
				}
				cn := calleeName(ci.Common())
				switch {
				case cn == "encoding/binary.Read" || cn == "encoding/binary.Write":
					n++
					if mi, ok := ci.Common().Args[1].(*ssa.MakeInterface); !ok || !strings.HasSuffix(mi.X.Type().String(), "littleEndian") {
						eo.Status, eo.Got = core.Violated, "a binary.Read/Write in "+core.FnName(fn)+" does not use binary.LittleEndian"
					}
				case strings.HasPrefix(cn, "encoding/binary.("):
					n++
					if !strings.HasPrefix(cn, "encoding/binary.(littleEndian)") {
						eo.Status, eo.Got = core.Violated, cn+" used in "+core.FnName(fn)
					}
				}
			}
		}
	}
	if n < 2 {
		eo.Status, eo.Got = core.Violated, fmt.Sprintf("only %d encoding/binary uses found", n)
	}
	obs = append(obs, eo)
	return obs
}

func constantString(k *ssa.Const) string {
	if k.Value == nil || k.Value.Kind() != constant.String {
		return ""
	}
	return constant.StringVal(k.Value)
}

// localArrayElems: v is (a conversion of) an element of a local array literal read with a
// non-constant index (the loop variable of `for _, x := range [...]T{a, b, c}`): the values
// stored into the array, in index order. nil otherwise.
func localArrayElems(v ssa.Value) []ssa.Value {
	v = stripConv(v)
	var base ssa.Value
	switch x := v.(type) {
	case *ssa.UnOp:
		if x.Op != token.MUL {
			return nil
		}
		ia, ok := x.X.(*ssa.IndexAddr)
		if !ok {
			return nil
		}
		if _, isK := constIntVal(ia.Index); isK {
			return nil
		}
		base = ia.X
	case *ssa.Index:
		// range over the array value: t = *arr; t[i]
		if _, isK := constIntVal(x.Index); isK {
			return nil
		}
		ld, ok := x.X.(*ssa.UnOp)
		if !ok || ld.Op != token.MUL {
			return nil
		}
		base = ld.X
	default:
		return nil
	}
	if sl, ok := base.(*ssa.Slice); ok {
		base = sl.X
	}
	al, ok := base.(*ssa.Alloc)
	if !ok || al.Referrers() == nil {
		return nil
	}
	arr, ok := deref(al.Type()).Underlying().(*types.Array)
	if !ok || arr.Len() > 16 {
		return nil
	}
	out := make([]ssa.Value, arr.Len())
	for _, r := range *al.Referrers() {
		ea, ok := r.(*ssa.IndexAddr)
		if !ok || ea.Referrers() == nil {
			continue
		}
		k, isK := constIntVal(ea.Index)
		if !isK || k < 0 || k >= arr.Len() {
			continue
		}
		for _, u := range *ea.Referrers() {
			if st, ok := u.(*ssa.Store); ok && st.Addr == ssa.Value(ea) {
				out[k] = st.Val
			}
		}
	}
	for _, x := range out {
		if x == nil {
			return nil
		}
	}
	return out
}
