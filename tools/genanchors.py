#!/usr/bin/env python3
"""Derives /verif/rules/anchors.json from the evidence of a run on the confirmed tree:
per property and rule, the obligation count must not fall below ~50% of the confirmed count
(a rule that matches (almost) nothing passes vacuously). Pattern rules with one or two instances on the confirmed tree get no minimum: a tidy-up may legitimately dissolve the pattern, and the named-instance rules report a missing instance themselves."""
import json,glob,math
# rule names that bundle several small pattern rules (each with a handful of sites a tidy-up may
# legitimately dissolve: print sites folded into a helper, two loops merged): no minimum either
NO_MIN={"T-SNBT","R-RING","R-ACCEPT","R-ESCAPE","R-ERRAS","R-LEN","R-SIBLING","R-RESET","R-UNKTAG","R-COUNT","T-FMTCODE"}
# (rule, property) pairs with no minimum: the rule has a single pattern obligation under this property
NO_MIN_AT={("R-REFLKIND","C03"),("R-PANIC","C17")}
# rules whose sites follow the number of functions the code happens to be split into (scanner states,
# reflect-kind switches): a tidy-up may merge them, so only "at least one site" is demanded
LOW_MIN={"T-SCANSTATE","R-REFLKIND"}
out={}
for f in sorted(glob.glob('/verif/evidence/C*.json')):
    e=json.load(open(f))
    per=e['coverage'].get('per_rule',{})
    out[e['property_id']]={"min":{r:(0 if (r in NO_MIN or (r,e["property_id"]) in NO_MIN_AT) else min(1,n) if r in LOW_MIN else max(1,int(math.floor(n*0.5))) if n>=10 else int(math.floor(n*0.34))) for r,n in sorted(per.items())},"keys":[]}
json.dump(out,open('/verif/rules/anchors.json','w'),indent=1,sort_keys=True)
print({k:sum(v['min'].values()) for k,v in out.items()})
