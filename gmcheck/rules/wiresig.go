package rules

// R-WIRESYM / R-SCHEMA: wire-signature extraction from the syntax of
// WriteTo / ReadFrom methods (DESIGN.md Appendix B).
//
// A signature is a set of paths; a path is a sequence of elements; an element
// is the wire kind of one field written to / read from the method's own stream
// parameter: the static type of the receiver of a nested WriteTo/ReadFrom call
// (pointers and conversions stripped), Raw(n)/RawDyn for direct byte I/O,
// Rep{...} for loops and Opt{...|...} for branches that rejoin.

import (
	"fmt"
	"go/ast"
	"go/token"
	"go/types"
	"sort"
	"strings"

	"gmcheck/core"

	"golang.org/x/tools/go/packages"
)

var pkPath = core.ModPath + "/net/packet"

type sigPath []string

type sigSet []sigPath

func (s sigSet) render() string {
	var ps []string
	seen := map[string]bool{}
	for _, p := range s {
		r := "[" + strings.Join(p, " ") + "]"
		if !seen[r] {
			seen[r] = true
			ps = append(ps, r)
		}
	}
	sort.Strings(ps)
	return strings.Join(ps, " | ")
}

func (s sigSet) dedupe() sigSet {
	var out sigSet
	seen := map[string]bool{}
	for _, p := range s {
		r := strings.Join(p, "\x00")
		if !seen[r] {
			seen[r] = true
			out = append(out, p)
		}
	}
	if len(out) > 64 {
		out = out[:64]
	}
	return out
}

// wireMethod identifies one WriteTo/ReadFrom method.
type wireMethod struct {
	pkg  *packages.Package
	decl *ast.FuncDecl
	fn   *types.Func
}

type wireX struct {
	c       *Ctx
	methods map[*types.Func]*wireMethod // every func decl of the module by object
	inline  func(named *types.Named) bool
	depth   int
	notes   []string
}

func (c *Ctx) newWireX() *wireX {
	x := &wireX{c: c, methods: map[*types.Func]*wireMethod{}}
	for _, pk := range c.P.Pkgs {
		for _, f := range pk.Syntax {
			for _, d := range f.Decls {
				fd, ok := d.(*ast.FuncDecl)
				if !ok || fd.Body == nil {
					continue
				}
				if obj, ok := pk.TypesInfo.Defs[fd.Name].(*types.Func); ok {
					x.methods[obj] = &wireMethod{pkg: pk, decl: fd, fn: obj}
				}
			}
		}
	}
	return x
}

// streamParam: the io.Writer / io.Reader parameter of the method.
func streamParam(m *wireMethod) types.Object {
	ft := m.decl.Type
	if ft.Params == nil {
		return nil
	}
	for _, f := range ft.Params.List {
		t := m.pkg.TypesInfo.TypeOf(f.Type)
		if t == nil {
			continue
		}
		s := t.String()
		if s == "io.Writer" || s == "io.Reader" || strings.HasSuffix(s, "nbt.DecoderReader") {
			if len(f.Names) > 0 {
				return m.pkg.TypesInfo.Defs[f.Names[0]]
			}
		}
	}
	return nil
}

type wctx struct {
	x       *wireX
	m       *wireMethod
	info    *types.Info
	streams map[types.Object]bool // the stream parameter and its aliases
	recv    types.Object
	// inlined helper only: what the caller passed for a parameter (buffer size / wire kind of the argument)
	bindRaw  map[types.Object]string
	bindKind map[types.Object][]string
	defs     map[types.Object]ast.Expr // locals defined once by := and never reassigned
}

// defOf: the defining expression of a local that is assigned exactly once.
func (w *wctx) defOf(id *ast.Ident) ast.Expr {
	if w.m == nil || w.m.decl == nil || w.m.decl.Body == nil {
		return nil
	}
	if w.defs == nil {
		w.defs = map[types.Object]ast.Expr{}
		re := map[types.Object]bool{}
		ast.Inspect(w.m.decl.Body, func(n ast.Node) bool {
			switch v := n.(type) {
			case *ast.AssignStmt:
				for i, l := range v.Lhs {
					lid, ok := l.(*ast.Ident)
					if !ok {
						continue
					}
					if o := w.info.Defs[lid]; o != nil && v.Tok == token.DEFINE && len(v.Lhs) == len(v.Rhs) {
						w.defs[o] = v.Rhs[i]
					} else if o := w.info.Uses[lid]; o != nil {
						re[o] = true
					}
				}
			case *ast.ValueSpec:
				// var x T = v
				if len(v.Names) == len(v.Values) {
					for i, nm := range v.Names {
						if o := w.info.Defs[nm]; o != nil {
							w.defs[o] = v.Values[i]
						}
					}
				}
			case *ast.UnaryExpr:
				// &x escapes: later writes through the pointer are not visible here
				if v.Op == token.AND {
					if xid, ok := ast.Unparen(v.X).(*ast.Ident); ok {
						if o := w.info.Uses[xid]; o != nil {
							if _, isStruct := o.Type().Underlying().(*types.Struct); !isStruct {
								re[o] = true
							}
						}
					}
				}
			}
			return true
		})
		for o := range re {
			delete(w.defs, o)
		}
	}
	return w.defs[w.info.Uses[id]]
}

func (w *wctx) mentionsStream(e ast.Expr) bool {
	found := false
	ast.Inspect(e, func(n ast.Node) bool {
		if id, ok := n.(*ast.Ident); ok {
			if o := w.info.Uses[id]; o != nil && w.streams[o] {
				found = true
			}
		}
		return !found
	})
	return found
}

func (w *wctx) isStream(e ast.Expr) bool {
	e = ast.Unparen(e)
	switch v := e.(type) {
	case *ast.Ident:
		o := w.info.Uses[v]
		return o != nil && w.streams[o]
	case *ast.UnaryExpr:
		if v.Op == token.AND {
			return w.isStream(v.X)
		}
	case *ast.TypeAssertExpr:
		return w.isStream(v.X)
	}
	return false
}

// methodSig extracts the signature of one method.
func (x *wireX) methodSig(m *wireMethod) sigSet {
	sp := streamParam(m)
	if sp == nil {
		return nil
	}
	w := &wctx{x: x, m: m, info: m.pkg.TypesInfo, streams: map[types.Object]bool{sp: true}}
	if m.decl.Recv != nil && len(m.decl.Recv.List) > 0 && len(m.decl.Recv.List[0].Names) > 0 {
		w.recv = w.info.Defs[m.decl.Recv.List[0].Names[0]]
	}
	paths, _ := w.stmts(m.decl.Body.List, sigSet{{}})
	return paths.dedupe()
}

// stmts walks a statement list. in = the paths reaching it; returns the paths
// that fall out of its end and (separately accumulated in done) paths that
// returned. For simplicity returned paths are merged into the result with a
// terminator mark handled by the caller: we return (open, closed).
func (w *wctx) stmts(list []ast.Stmt, in sigSet) (closedAndOpen sigSet, open sigSet) {
	open = in
	var closed sigSet
	for _, s := range list {
		if len(open) == 0 {
			break
		}
		var c sigSet
		c, open = w.stmt(s, open)
		closed = append(closed, c...)
	}
	all := append(append(sigSet{}, closed...), open...)
	return all, open
}

func appendAll(in sigSet, elems []string) sigSet {
	if len(elems) == 0 {
		return in
	}
	out := make(sigSet, len(in))
	for i, p := range in {
		np := make(sigPath, 0, len(p)+len(elems))
		np = append(np, p...)
		np = append(np, elems...)
		out[i] = np
	}
	return out
}

func cross(in sigSet, branches sigSet) sigSet {
	var out sigSet
	for _, p := range in {
		for _, b := range branches {
			np := make(sigPath, 0, len(p)+len(b))
			np = append(np, p...)
			np = append(np, b...)
			out = append(out, np)
		}
	}
	return out
}

// isPureErrTest: cond is exactly `err != nil` for an error-typed identifier.
func (w *wctx) isPureErrTest(cond ast.Expr) bool { return w.isErrNilCmp(cond, token.NEQ) }

// isPureErrNilTest: cond is exactly `err == nil` for an error-typed identifier.
func (w *wctx) isPureErrNilTest(cond ast.Expr) bool { return w.isErrNilCmp(cond, token.EQL) }

func (w *wctx) isErrNilCmp(cond ast.Expr, op token.Token) bool {
	b, ok := ast.Unparen(cond).(*ast.BinaryExpr)
	if !ok || b.Op != op {
		return false
	}
	isNil := func(e ast.Expr) bool {
		id, ok := ast.Unparen(e).(*ast.Ident)
		return ok && id.Name == "nil" && w.info.Uses[id] == types.Universe.Lookup("nil")
	}
	isErr := func(e ast.Expr) bool {
		t := w.info.TypeOf(e)
		return t != nil && types.Identical(t, types.Universe.Lookup("error").Type())
	}
	return (isErr(b.X) && isNil(b.Y)) || (isErr(b.Y) && isNil(b.X))
}

// returnsFreshError: the branch ends in a return whose error result is a newly
// built error (call, composite literal) or a package-level error variable -
// a validation failure, never a successful wire form.
func (w *wctx) returnsFreshError(list []ast.Stmt) bool {
	if len(list) == 0 {
		return false
	}
	ret, ok := list[len(list)-1].(*ast.ReturnStmt)
	if !ok || len(ret.Results) == 0 {
		return false
	}
	last := ast.Unparen(ret.Results[len(ret.Results)-1])
	t := w.info.TypeOf(last)
	if t == nil {
		return false
	}
	errT := types.Universe.Lookup("error").Type()
	if !types.Identical(t, errT) && !types.AssignableTo(t, errT) {
		return false
	}
	switch v := last.(type) {
	case *ast.CallExpr, *ast.CompositeLit:
		return true
	case *ast.UnaryExpr:
		return v.Op == token.AND
	case *ast.Ident:
		if o, ok := w.info.Uses[v].(*types.Var); ok && o.Parent() == o.Pkg().Scope() {
			return true
		}
	case *ast.SelectorExpr:
		if o, ok := w.info.Uses[v.Sel].(*types.Var); ok && o.Pkg() != nil && o.Parent() == o.Pkg().Scope() {
			return true
		}
	}
	return false
}

func (w *wctx) isRecvNilTest(cond ast.Expr) bool {
	b, ok := ast.Unparen(cond).(*ast.BinaryExpr)
	if !ok || b.Op != token.EQL || w.recv == nil {
		return false
	}
	id, ok := ast.Unparen(b.X).(*ast.Ident)
	if !ok || w.info.Uses[id] != w.recv {
		return false
	}
	n, ok := ast.Unparen(b.Y).(*ast.Ident)
	return ok && n.Name == "nil"
}

func terminates(list []ast.Stmt) bool {
	if len(list) == 0 {
		return false
	}
	switch s := list[len(list)-1].(type) {
	case *ast.ReturnStmt:
		return true
	case *ast.ExprStmt:
		if c, ok := s.X.(*ast.CallExpr); ok {
			if id, ok := c.Fun.(*ast.Ident); ok && id.Name == "panic" {
				return true
			}
		}
	case *ast.BlockStmt:
		return terminates(s.List)
	case *ast.IfStmt:
		if s.Else == nil {
			return false
		}
		eb, ok := s.Else.(*ast.BlockStmt)
		if !ok {
			return false
		}
		return terminates(s.Body.List) && terminates(eb.List)
	}
	return false
}

// stmt returns (closed paths = returned inside, open paths = continue after).
func (w *wctx) stmt(s ast.Stmt, in sigSet) (closed, open sigSet) {
	switch v := s.(type) {
	case *ast.BlockStmt:
		all, op := w.stmts(v.List, in)
		return subtract(all, op), op
	case *ast.ReturnStmt:
		if len(v.Results) == 1 {
			return cross(in, w.exprPaths(v.Results[0])), nil
		}
		var el []string
		for _, e := range v.Results {
			el = append(el, w.exprElems(e)...)
		}
		return appendAll(in, el), nil
	case *ast.ExprStmt:
		// panic(..): the path ends without a wire form
		if call, ok := ast.Unparen(v.X).(*ast.CallExpr); ok {
			if id, ok := ast.Unparen(call.Fun).(*ast.Ident); ok && id.Name == "panic" {
				if _, isBuiltin := w.info.Uses[id].(*types.Builtin); isBuiltin {
					return nil, nil
				}
			}
		}
		return nil, cross(in, w.exprPaths(v.X))
	case *ast.AssignStmt:
		var el []string
		for _, e := range v.Rhs {
			el = append(el, w.exprElems(e)...)
		}
		// aliases of the stream: x := f(stream)
		if len(v.Lhs) >= 1 && len(v.Rhs) == 1 && len(el) == 0 && w.mentionsStream(v.Rhs[0]) {
			if id, ok := v.Lhs[0].(*ast.Ident); ok {
				if o := w.info.Defs[id]; o != nil {
					w.streams[o] = true
				} else if o := w.info.Uses[id]; o != nil {
					w.streams[o] = true
				}
			}
		}
		return nil, appendAll(in, el)
	case *ast.DeclStmt:
		var el []string
		if gd, ok := v.Decl.(*ast.GenDecl); ok {
			for _, sp := range gd.Specs {
				if vs, ok := sp.(*ast.ValueSpec); ok {
					for i, e := range vs.Values {
						ee := w.exprElems(e)
						el = append(el, ee...)
						if len(ee) == 0 && w.mentionsStream(e) && i < len(vs.Names) {
							if o := w.info.Defs[vs.Names[i]]; o != nil {
								w.streams[o] = true
							}
						}
					}
				}
			}
		}
		return nil, appendAll(in, el)
	case *ast.IfStmt:
		cur := in
		if v.Init != nil {
			var c sigSet
			c, cur = w.stmt(v.Init, cur)
			closed = append(closed, c...)
		}
		cur = appendAll(cur, w.exprElems(v.Cond))
		if w.isRecvNilTest(v.Cond) {
			// nil-receiver special case: not part of the wire form of a value
			return closed, cur
		}
		thenAll, thenOpen := w.stmts(v.Body.List, sigSet{{}})
		thenClosed := subtract(thenAll, thenOpen)
		var elseAll, elseOpen sigSet = sigSet{{}}, sigSet{{}}
		if v.Else != nil {
			switch e := v.Else.(type) {
			case *ast.BlockStmt:
				elseAll, elseOpen = w.stmts(e.List, sigSet{{}})
			case *ast.IfStmt:
				c, o := w.stmt(e, sigSet{{}})
				elseAll, elseOpen = append(append(sigSet{}, c...), o...), o
			}
		}
		elseClosed := subtract(elseAll, elseOpen)
		if w.isPureErrTest(v.Cond) || w.returnsFreshError(v.Body.List) {
			// error exit: paths that return here are failures, not wire forms
			thenClosed = nil
			if terminates(v.Body.List) {
				thenOpen = nil
			}
		}
		if eb, ok := v.Else.(*ast.BlockStmt); ok && w.isPureErrNilTest(v.Cond) {
			// `if err == nil { go on } else { return n, err }`: the else branch is the error exit
			elseClosed = nil
			if terminates(eb.List) {
				elseOpen = nil
			}
		}
		if v.Else == nil && w.isPureErrNilTest(v.Cond) {
			// `if err == nil { more I/O }`: errors are collected and tested once afterwards; the path
			// that skips the body carries an error, it is no wire form
			elseOpen = nil
		}
		if eb, ok := v.Else.(*ast.BlockStmt); ok && w.returnsFreshError(eb.List) {
			elseClosed = nil
			if terminates(eb.List) {
				elseOpen = nil
			}
		}
		closed = append(closed, cross(cur, thenClosed)...)
		closed = append(closed, cross(cur, elseClosed)...)
		// open continuations
		tEmpty, eEmpty := allEmpty(thenOpen), allEmpty(elseOpen)
		switch {
		case len(thenOpen) == 0 && len(elseOpen) == 0:
			return closed, nil
		case len(thenOpen) == 0:
			return closed, cross(cur, elseOpen)
		case len(elseOpen) == 0:
			return closed, cross(cur, thenOpen)
		case tEmpty && eEmpty:
			return closed, cur
		default:
			el := "Opt{" + thenOpen.dedupe().render() + " else " + elseOpen.dedupe().render() + "}"
			return closed, appendAll(cur, []string{el})
		}
	case *ast.ForStmt:
		cur := in
		if v.Init != nil {
			_, cur = w.stmt(v.Init, cur)
		}
		bodyAll, _ := w.stmts(v.Body.List, sigSet{{}})
		if allEmpty(bodyAll) {
			return nil, cur
		}
		return nil, appendAll(cur, []string{"Rep{" + nonEmpty(bodyAll).dedupe().render() + "}"})
	case *ast.RangeStmt:
		// for _, part := range [...]io.ReaderFrom{a, b}: the body once per listed element, in order
		if lit := w.rangeLiteral(v.X); lit != nil && v.Value != nil {
			if vid, ok := v.Value.(*ast.Ident); ok {
				if vobj := w.info.Defs[vid]; vobj != nil {
					cur := in
					var closedAll sigSet
					if w.bindKind == nil {
						w.bindKind = map[types.Object][]string{}
					}
					for _, el := range lit.Elts {
						if kv, isKV := el.(*ast.KeyValueExpr); isKV {
							el = kv.Value
						}
						w.bindKind[vobj] = w.elemOf(stripAddr(el), "WriteTo")
						all, op := w.stmts(v.Body.List, cur)
						closedAll = append(closedAll, subtract(all, op)...)
						cur = op
						if len(cur) == 0 {
							break
						}
					}
					delete(w.bindKind, vobj)
					return closedAll, cur
				}
			}
		}
		bodyAll, _ := w.stmts(v.Body.List, sigSet{{}})
		if allEmpty(bodyAll) {
			return nil, in
		}
		return nil, appendAll(in, []string{"Rep{" + nonEmpty(bodyAll).dedupe().render() + "}"})
	case *ast.SwitchStmt, *ast.TypeSwitchStmt:
		var body *ast.BlockStmt
		cur := in
		switch sw := v.(type) {
		case *ast.SwitchStmt:
			body = sw.Body
			if sw.Init != nil {
				_, cur = w.stmt(sw.Init, cur)
			}
		case *ast.TypeSwitchStmt:
			body = sw.Body
			// switch src := r.(type): inside the clauses src is the stream
			if as, ok := sw.Assign.(*ast.AssignStmt); ok && len(as.Rhs) == 1 {
				if ta, ok := ast.Unparen(as.Rhs[0]).(*ast.TypeAssertExpr); ok && w.isStream(ta.X) {
					for _, cs := range sw.Body.List {
						if obj := w.info.Implicits[cs]; obj != nil {
							w.streams[obj] = true
						}
					}
				}
			}
		}
		var alts []string
		var cl sigSet
		anyOpen := false
		hasDefault := false
		for _, cs := range body.List {
			cc, ok := cs.(*ast.CaseClause)
			if !ok {
				continue
			}
			if cc.List == nil {
				hasDefault = true
			}
			all, op := w.stmts(cc.Body, sigSet{{}})
			if w.returnsFreshError(cc.Body) {
				// validation failure: not a wire form
				continue
			}
			if ss, isSw := v.(*ast.SwitchStmt); isSw && ss.Tag == nil && len(cc.List) == 1 && w.isPureErrTest(cc.List[0]) && terminates(cc.Body) {
				// switch { case err != nil: return n, err ...}: the error exit
				continue
			}
			cl = append(cl, subtract(all, op)...)
			if len(op) > 0 {
				anyOpen = true
				if !allEmpty(op) {
					alts = append(alts, op.dedupe().render())
				}
			}
		}
		if !hasDefault {
			// no clause may match: control continues after the switch
			anyOpen = true
		}
		closed = cross(cur, nonEmptyOrSelf(cl))
		if len(cl) == 0 {
			closed = nil
		}
		if !anyOpen && len(cl) > 0 {
			return closed, nil
		}
		if len(alts) > 0 {
			sort.Strings(alts)
			return closed, appendAll(cur, []string{"Alt{" + strings.Join(alts, " / ") + "}"})
		}
		return closed, cur
	case *ast.DeferStmt, *ast.GoStmt, *ast.IncDecStmt, *ast.BranchStmt, *ast.EmptyStmt, *ast.LabeledStmt:
		return nil, in
	}
	return nil, in
}

func nonEmptyOrSelf(s sigSet) sigSet { return s }

func allEmpty(s sigSet) bool {
	for _, p := range s {
		if len(p) > 0 {
			return false
		}
	}
	return true
}

func nonEmpty(s sigSet) sigSet {
	var out sigSet
	for _, p := range s {
		if len(p) > 0 {
			out = append(out, p)
		}
	}
	return out
}

// subtract returns the members of all that are not the (identical slice) open paths.
func subtract(all, open sigSet) sigSet {
	if len(open) == 0 {
		return all
	}
	n := len(all) - len(open)
	if n <= 0 {
		return nil
	}
	return all[:n]
}

// exprElems lists the wire elements produced by evaluating e, in order.
func (w *wctx) exprElems(e ast.Expr) []string {
	var out []string
	var visit func(n ast.Node) bool
	visit = func(n ast.Node) bool {
		switch v := n.(type) {
		case *ast.FuncLit:
			return false
		case *ast.CallExpr:
			if el, ok := w.ioCall(v); ok {
				// arguments/receiver first (evaluation order), without the stream itself
				out = append(out, el...)
				return false
			}
		}
		return true
	}
	ast.Inspect(e, visit)
	return out
}

// ioCall recognises the I/O forms.
func (w *wctx) ioCall(call *ast.CallExpr) ([]string, bool) {
	info := w.info
	// method calls
	if sel, ok := call.Fun.(*ast.SelectorExpr); ok {
		name := sel.Sel.Name
		switch name {
		case "WriteTo", "ReadFrom":
			if len(call.Args) == 1 && w.isStream(call.Args[0]) {
				if fobj, ok := info.Uses[sel.Sel].(*types.Func); ok {
					sig := fobj.Type().(*types.Signature)
					if sig.Results().Len() == 2 && sig.Results().At(0).Type().String() == "int64" {
						return w.elemOf(sel.X, name), true
					}
				}
			}
		case "Write", "WriteString":
			if w.isStream(sel.X) && len(call.Args) == 1 {
				return []string{w.rawSize(call.Args[0])}, true
			}
		case "Read":
			if w.isStream(sel.X) && len(call.Args) == 1 {
				return []string{w.rawSize(call.Args[0])}, true
			}
		case "ReadByte":
			if w.isStream(sel.X) {
				return []string{"Raw(1)"}, true
			}
		case "WriteByte":
			if w.isStream(sel.X) {
				return []string{"Raw(1)"}, true
			}
		case "Decode", "Encode":
			// nbt codec on a wrapper of the stream
			if w.mentionsStreamDeep(sel.X) {
				return []string{"NBTDoc"}, true
			}
		}
		// package functions io.ReadFull(r, b) etc.
		if pid, ok := sel.X.(*ast.Ident); ok {
			if pn, ok := info.Uses[pid].(*types.PkgName); ok {
				switch pn.Imported().Path() + "." + name {
				case "io.ReadFull", "io.ReadAtLeast":
					if len(call.Args) >= 2 && w.isStream(call.Args[0]) {
						return []string{w.rawSize(call.Args[1])}, true
					}
				case "io.ReadAll":
					if len(call.Args) == 1 && w.isStream(call.Args[0]) {
						return []string{"RawDyn"}, true
					}
				case "io.CopyN":
					if len(call.Args) == 3 && (w.isStream(call.Args[0]) || w.isStream(call.Args[1])) {
						return []string{"RawDyn"}, true
					}
				case "encoding/binary.Read", "encoding/binary.Write":
					if len(call.Args) == 3 && w.isStream(call.Args[0]) {
						t := info.TypeOf(call.Args[2])
						return []string{"Bin(" + typeWidth(t) + ")"}, true
					}
				}
			}
		}
	}
	// helper functions of the module that receive the stream: inline
	if sub, ok := w.helperPaths(call); ok {
		if len(sub) == 1 {
			return sub[0], true
		}
		if len(sub) > 1 {
			return []string{"Alt{" + sub.render() + "}"}, true
		}
		return nil, true
	}
	return nil, false
}

// helperPaths: the wire paths of a module function (not a method) that is handed the stream.
func (w *wctx) helperPaths(call *ast.CallExpr) (sigSet, bool) {
	// a local closure over the stream: read := func(part io.ReaderFrom) error { nn, err := part.ReadFrom(r); ... }
	if id, ok := ast.Unparen(call.Fun).(*ast.Ident); ok && w.x.depth < 4 {
		if def := w.defOf(id); def != nil {
			if lit, ok := ast.Unparen(def).(*ast.FuncLit); ok {
				uses := false
				ast.Inspect(lit.Body, func(n ast.Node) bool {
					if x, ok := n.(*ast.Ident); ok {
						if o := w.info.Uses[x]; o != nil && w.streams[o] {
							uses = true
						}
					}
					return !uses
				})
				if !uses {
					return nil, false
				}
				sub := &wctx{x: w.x, m: w.m, info: w.info, streams: w.streams, recv: w.recv, defs: w.defs,
					bindRaw: map[types.Object]string{}, bindKind: map[types.Object][]string{}}
				for k, v := range w.bindRaw {
					sub.bindRaw[k] = v
				}
				for k, v := range w.bindKind {
					sub.bindKind[k] = v
				}
				idx := 0
				for _, f := range lit.Type.Params.List {
					for _, nm := range f.Names {
						po := w.info.Defs[nm]
						if po != nil && idx < len(call.Args) {
							w.bindParam(sub, po, call.Args[idx])
						}
						idx++
					}
				}
				w.x.depth++
				paths, _ := sub.stmts(lit.Body.List, sigSet{{}})
				w.x.depth--
				return nonEmptyOr(paths.dedupe()), true
			}
		}
	}
	fobj := calleeObj(w.info, call)
	if fobj == nil {
		return nil, false
	}
	streamArg := -1
	for i, a := range call.Args {
		if w.isStream(a) {
			streamArg = i
		}
	}
	if streamArg < 0 {
		return nil, false
	}
	hm, ok := w.x.methods[fobj.Origin()]
	if !ok || w.x.depth >= 4 {
		return nil, false
	}
	if fobj.Type().(*types.Signature).Recv() != nil {
		// a method is a helper only when it is called on the receiver of the method being read
		// (p.readHeader(r) inside p.ReadFrom) and is not itself a WriteTo/ReadFrom
		sel, isSel := ast.Unparen(call.Fun).(*ast.SelectorExpr)
		if !isSel || w.recv == nil || fobj.Name() == "WriteTo" || fobj.Name() == "ReadFrom" {
			return nil, false
		}
		id, isId := ast.Unparen(sel.X).(*ast.Ident)
		if !isId || w.info.Uses[id] != w.recv {
			return nil, false
		}
	}
	w.x.depth++
	defer func() { w.x.depth-- }()
	// the helper's own stream parameter is the one at streamArg
	return w.x.helperSig(hm, streamArg, w, call.Args), true
}

// bindParam records in sub what the caller (w) passes for a parameter of an
// inlined helper or closure: the size of a byte buffer, the wire kind of an
// element handed over as an interface or type-parameter value.
func (w *wctx) bindParam(sub *wctx, po types.Object, arg ast.Expr) {
	t := w.info.TypeOf(arg)
	if t == nil {
		return
	}
	if sl, ok := t.Underlying().(*types.Slice); ok {
		if b, ok := sl.Elem().Underlying().(*types.Basic); ok && b.Kind() == types.Uint8 {
			if rs := w.rawSize(arg); rs != "RawDyn" {
				sub.bindRaw[po] = rs
			}
		}
		return
	}
	pt := types.Unalias(deref(po.Type()))
	_, isTP := pt.(*types.TypeParam)
	_, isIface := pt.Underlying().(*types.Interface)
	if isTP || isIface {
		sub.bindKind[po] = w.elemOf(stripAddr(arg), "WriteTo")
	}
}

// exprPaths: like exprElems, but a helper call that is the whole expression
// contributes each of its paths separately (return helper(w, ...)).
func (w *wctx) exprPaths(e ast.Expr) sigSet {
	if call, ok := ast.Unparen(e).(*ast.CallExpr); ok {
		if sub, ok := w.helperPaths(call); ok && len(sub) > 1 {
			return sub
		}
	}
	return sigSet{w.exprElems(e)}
}

func (w *wctx) mentionsStreamDeep(e ast.Expr) bool {
	return w.mentionsStream(e)
}

func calleeObj(info *types.Info, call *ast.CallExpr) *types.Func {
	switch f := ast.Unparen(call.Fun).(type) {
	case *ast.Ident:
		o, _ := info.Uses[f].(*types.Func)
		return o
	case *ast.SelectorExpr:
		o, _ := info.Uses[f.Sel].(*types.Func)
		return o
	case *ast.IndexExpr:
		if id, ok := f.X.(*ast.Ident); ok {
			o, _ := info.Uses[id].(*types.Func)
			return o
		}
	case *ast.IndexListExpr:
		if id, ok := f.X.(*ast.Ident); ok {
			o, _ := info.Uses[id].(*types.Func)
			return o
		}
	}
	return nil
}

func (x *wireX) helperSig(m *wireMethod, streamIdx int, caller *wctx, args []ast.Expr) sigSet {
	// find the streamIdx-th parameter object
	idx := 0
	var sp types.Object
	bindRaw := map[types.Object]string{}
	bindKind := map[types.Object][]string{}
	for _, f := range m.decl.Type.Params.List {
		for _, n := range f.Names {
			po := m.pkg.TypesInfo.Defs[n]
			if idx == streamIdx {
				sp = po
			} else if caller != nil && idx < len(args) && po != nil {
				tmp := &wctx{bindRaw: bindRaw, bindKind: bindKind}
				caller.bindParam(tmp, po, args[idx])
			}
			idx++
		}
	}
	if sp == nil {
		return nil
	}
	w := &wctx{x: x, m: m, info: m.pkg.TypesInfo, streams: map[types.Object]bool{sp: true}, bindRaw: bindRaw, bindKind: bindKind}
	if m.decl.Recv != nil && len(m.decl.Recv.List) > 0 && len(m.decl.Recv.List[0].Names) > 0 {
		w.recv = w.info.Defs[m.decl.Recv.List[0].Names[0]]
	}
	paths, _ := w.stmts(m.decl.Body.List, sigSet{{}})
	return nonEmptyOr(paths.dedupe())
}

func nonEmptyOr(s sigSet) sigSet {
	n := nonEmpty(s)
	if len(n) == 0 {
		return s
	}
	return n
}

func typeWidth(t types.Type) string {
	if t == nil {
		return "?"
	}
	t = deref(t)
	switch u := t.Underlying().(type) {
	case *types.Basic:
		switch u.Kind() {
		case types.Int8, types.Uint8, types.Bool:
			return "1"
		case types.Int16, types.Uint16:
			return "2"
		case types.Int32, types.Uint32, types.Float32:
			return "4"
		case types.Int64, types.Uint64, types.Float64:
			return "8"
		}
		return u.Name()
	case *types.Array:
		return fmt.Sprintf("%dx%s", u.Len(), typeWidth(u.Elem()))
	case *types.Slice:
		return "[]" + typeWidth(u.Elem())
	}
	return "?"
}

// rawSize: Raw(n) when the buffer is a whole fixed-size array or an n-element
// literal, RawDyn otherwise.
func (w *wctx) rawSize(e ast.Expr) string {
	e = ast.Unparen(e)
	switch v := e.(type) {
	case *ast.Ident:
		if rs, ok := w.bindRaw[w.info.Uses[v]]; ok {
			return rs
		}
	case *ast.SliceExpr:
		if v.Low == nil && v.High == nil {
			t := w.info.TypeOf(v.X)
			if t != nil {
				if a, ok := deref(t).Underlying().(*types.Array); ok {
					return fmt.Sprintf("Raw(%d)", a.Len())
				}
			}
		}
		if v.High != nil {
			if tv, ok := w.info.Types[v.High]; ok && tv.Value != nil && v.Low == nil {
				return "Raw(" + tv.Value.ExactString() + ")"
			}
		}
	case *ast.CompositeLit:
		if _, ok := w.info.TypeOf(v).Underlying().(*types.Slice); ok {
			return fmt.Sprintf("Raw(%d)", len(v.Elts))
		}
	case *ast.CallExpr:
		// binary.BigEndian.AppendUint32(scratch[:0], x): exactly the appended bytes
		if fo := calleeObj(w.info, v); fo != nil && fo.Pkg() != nil && fo.Pkg().Path() == "encoding/binary" && len(v.Args) == 2 {
			width := map[string]int{"AppendUint16": 2, "AppendUint32": 4, "AppendUint64": 8}[fo.Name()]
			if width > 0 {
				base := ast.Unparen(v.Args[0])
				empty := false
				if id, ok := base.(*ast.Ident); ok && id.Name == "nil" {
					empty = true
				}
				if sl, ok := base.(*ast.SliceExpr); ok && sl.Low == nil && sl.High != nil {
					if tv, ok := w.info.Types[sl.High]; ok && tv.Value != nil && tv.Value.ExactString() == "0" {
						empty = true
					}
				}
				if empty {
					return fmt.Sprintf("Raw(%d)", width)
				}
			}
		}
		// []byte("const")
		if len(v.Args) == 1 {
			if tv, ok := w.info.Types[v.Args[0]]; ok && tv.Value != nil {
				return "RawConst"
			}
		}
	}
	return "RawDyn"
}

// elemOf: the wire kind(s) of the receiver expression of a WriteTo/ReadFrom call.
func (w *wctx) elemOf(x ast.Expr, method string) []string {
	x = ast.Unparen(x)
	info := w.info
	if w.bindKind != nil {
		// P(val) / val / &val / *val where val is a type-parameter-typed parameter of the inlined helper
		inner := stripAddr(x)
		if call, ok := inner.(*ast.CallExpr); ok && len(call.Args) == 1 {
			if tv, ok := info.Types[call.Fun]; ok && tv.IsType() {
				inner = stripAddr(call.Args[0])
			}
		}
		if id, ok := inner.(*ast.Ident); ok {
			if k, ok := w.bindKind[info.Uses[id]]; ok {
				return k
			}
		}
	}
	// a local holding a literal (fields := pk.Tuple{...}; fields.WriteTo(w)): the literal
	if id, ok := x.(*ast.Ident); ok {
		if def := w.defOf(id); def != nil {
			d := ast.Unparen(def)
			if u, ok := d.(*ast.UnaryExpr); ok && u.Op == token.AND {
				d = ast.Unparen(u.X)
			}
			if _, isLit := d.(*ast.CompositeLit); isLit {
				return w.elemOf(d, method)
			}
			// a local holding the field behind an interface: var f FieldEncoder = any(&x).(FieldEncoder)
			if ta, ok := d.(*ast.TypeAssertExpr); ok && ta.Type != nil {
				return w.elemOf(ta, method)
			}
		}
	}
	// a local tuple put together statement by statement: fields := pk.Tuple{...};
	// if cond { fields = append(fields, more) }; fields.WriteTo(w)
	if id, ok := x.(*ast.Ident); ok && isNamed(info.TypeOf(id), pkPath, "Tuple") {
		if out, ok := w.builtTuple(id, method); ok {
			return out
		}
	}
	// any(&x).(FieldEncoder) / FieldEncoder(&x): the field is x
	if ta, ok := x.(*ast.TypeAssertExpr); ok && ta.Type != nil {
		inner := ast.Unparen(ta.X)
		if call, ok := inner.(*ast.CallExpr); ok && len(call.Args) == 1 {
			if tv, ok := info.Types[call.Fun]; ok && tv.IsType() {
				if _, isIface := tv.Type.Underlying().(*types.Interface); isIface {
					return w.elemOf(call.Args[0], method)
				}
			}
		}
	}
	// Tuple literal: expand
	if cl, ok := x.(*ast.CompositeLit); ok {
		if isNamed(info.TypeOf(cl), pkPath, "Tuple") {
			var out []string
			for _, el := range cl.Elts {
				out = append(out, w.elemOf(el, method)...)
			}
			return out
		}
	}
	if w.x.inline != nil && w.x.depth < 5 {
		if named := namedOf(info.TypeOf(x)); named != nil && w.x.inline(named) {
			if m := w.x.methodOf(named, method); m != nil {
				w.x.depth++
				sub := w.x.methodSig(m)
				w.x.depth--
				sub = nonEmptyOr(sub)
				if len(sub) == 1 {
					return sub[0]
				}
				if len(sub) > 1 {
					return []string{"Alt{" + sub.render() + "}"}
				}
			}
		}
	}
	return []string{w.kindOf(x)}
}

// builtTuple: use is the only use of a local pk.Tuple besides the statements that build it at the top
// level of the function body: its definition by a literal, unconditional appends, and appends under an
// if without else (an optional tail). Anything else that touches the local makes it unknown.
func (w *wctx) builtTuple(use *ast.Ident, method string) ([]string, bool) {
	obj := w.info.Uses[use]
	if obj == nil || w.m == nil || w.m.decl == nil || w.m.decl.Body == nil {
		return nil, false
	}
	accounted := map[*ast.Ident]bool{use: true}
	// id = append(id, elems...)
	appendOf := func(st ast.Stmt) ([]ast.Expr, bool) {
		as, ok := st.(*ast.AssignStmt)
		if !ok || as.Tok != token.ASSIGN || len(as.Lhs) != 1 || len(as.Rhs) != 1 {
			return nil, false
		}
		l, ok := as.Lhs[0].(*ast.Ident)
		if !ok || w.info.Uses[l] != obj {
			return nil, false
		}
		call, ok := ast.Unparen(as.Rhs[0]).(*ast.CallExpr)
		if !ok || len(call.Args) < 2 || call.Ellipsis.IsValid() {
			return nil, false
		}
		if f, ok := call.Fun.(*ast.Ident); !ok || f.Name != "append" || w.info.Uses[f] != types.Universe.Lookup("append") {
			return nil, false
		}
		a0, ok := ast.Unparen(call.Args[0]).(*ast.Ident)
		if !ok || w.info.Uses[a0] != obj {
			return nil, false
		}
		accounted[l], accounted[a0] = true, true
		return call.Args[1:], true
	}
	var out []string
	defined := false
	for _, st := range w.m.decl.Body.List {
		if st.Pos() > use.Pos() {
			break
		}
		switch v := st.(type) {
		case *ast.AssignStmt:
			if v.Tok == token.DEFINE && len(v.Lhs) == 1 && len(v.Rhs) == 1 {
				if l, ok := v.Lhs[0].(*ast.Ident); ok && w.info.Defs[l] == obj {
					cl, ok := ast.Unparen(v.Rhs[0]).(*ast.CompositeLit)
					if !ok || defined {
						return nil, false
					}
					defined = true
					out = append(out, w.elemOf(cl, method)...)
					continue
				}
			}
			if elems, ok := appendOf(v); ok {
				if !defined {
					return nil, false
				}
				for _, e := range elems {
					out = append(out, w.elemOf(e, method)...)
				}
			}
		case *ast.IfStmt:
			if v.Init != nil || v.Else != nil || len(v.Body.List) == 0 {
				continue
			}
			var tail sigPath
			all := true
			for _, bs := range v.Body.List {
				elems, ok := appendOf(bs)
				if !ok {
					all = false
					break
				}
				for _, e := range elems {
					tail = append(tail, w.elemOf(e, method)...)
				}
			}
			if all && defined {
				out = append(out, "Opt{"+sigSet{tail}.render()+" else []}")
			}
		}
	}
	if !defined {
		return nil, false
	}
	// every other mention of the local (a write, an alias, a call that takes it) is unaccounted for
	clean := true
	ast.Inspect(w.m.decl.Body, func(n ast.Node) bool {
		if id, ok := n.(*ast.Ident); ok && w.info.Uses[id] == obj && !accounted[id] {
			clean = false
		}
		return clean
	})
	if !clean {
		return nil, false
	}
	return out, true
}

func namedOf(t types.Type) *types.Named {
	if t == nil {
		return nil
	}
	for {
		t = types.Unalias(t)
		if p, ok := t.(*types.Pointer); ok {
			t = p.Elem()
			continue
		}
		break
	}
	n, _ := t.(*types.Named)
	return n
}

// methodOf finds the declaration of method name on named (value or pointer receiver).
func (x *wireX) methodOf(named *types.Named, name string) *wireMethod {
	o := named.Origin()
	for i := 0; i < o.NumMethods(); i++ {
		if o.Method(i).Name() == name {
			return x.methods[o.Method(i)]
		}
	}
	return nil
}

func stripAddr(e ast.Expr) ast.Expr {
	for {
		e = ast.Unparen(e)
		switch v := e.(type) {
		case *ast.UnaryExpr:
			if v.Op == token.AND {
				e = v.X
				continue
			}
		case *ast.StarExpr:
			e = v.X
			continue
		}
		return e
	}
}

// kindOf gives the canonical wire kind of an element expression.
func (w *wctx) kindOf(e ast.Expr) string {
	info := w.info
	e = ast.Unparen(e)
	// any(&x).(I) / x.(I): look through assertions and conversions to any
	if ta, ok := e.(*ast.TypeAssertExpr); ok && ta.Type != nil {
		inner := ast.Unparen(ta.X)
		if call, ok := inner.(*ast.CallExpr); ok && len(call.Args) == 1 {
			if tv, ok := info.Types[call.Fun]; ok && tv.IsType() {
				return w.kindOf(call.Args[0])
			}
		}
		t := info.TypeOf(ta.X)
		if t != nil {
			if _, isIface := t.Underlying().(*types.Interface); !isIface {
				return w.kindOf(ta.X)
			}
		}
		return canonType(info.TypeOf(e))
	}
	if call, ok := e.(*ast.CallExpr); ok {
		if fobj := calleeObj(info, call); fobj != nil && fobj.Pkg() != nil && fobj.Pkg().Path() == pkPath {
			switch fobj.Name() {
			case "Array":
				if len(call.Args) == 1 {
					return "Ary<pk.VarInt," + elemTypeName(info.TypeOf(call.Args[0])) + ">"
				}
			case "NBT":
				return "NBT"
			}
		}
		// conversion T(x): kind is T
		if tv, ok := info.Types[call.Fun]; ok && tv.IsType() {
			return canonType(info.TypeOf(e))
		}
	}
	if u, ok := e.(*ast.UnaryExpr); ok && u.Op == token.AND {
		if cl, ok := ast.Unparen(u.X).(*ast.CompositeLit); ok {
			return w.kindOf(cl)
		}
	}
	if cl, ok := e.(*ast.CompositeLit); ok {
		t := info.TypeOf(cl)
		if n, ok := types.Unalias(t).(*types.Named); ok && n.Obj().Pkg() != nil && n.Obj().Pkg().Path() == pkPath {
			switch n.Obj().Name() {
			case "Ary":
				lenT := "?"
				if n.TypeArgs().Len() == 1 {
					lenT = canonType(n.TypeArgs().At(0))
				}
				el := "?"
				for _, kv := range cl.Elts {
					if k, ok := kv.(*ast.KeyValueExpr); ok {
						if id, ok := k.Key.(*ast.Ident); ok && id.Name == "Ary" {
							el = elemTypeName(info.TypeOf(k.Value))
						}
					} else {
						el = elemTypeName(info.TypeOf(kv))
					}
				}
				return "Ary<" + lenT + "," + el + ">"
			case "NBTField":
				return "NBT"
			case "Opt":
				f := "?"
				for _, kv := range cl.Elts {
					if k, ok := kv.(*ast.KeyValueExpr); ok {
						if id, ok := k.Key.(*ast.Ident); ok && id.Name == "Field" {
							f = w.kindOf(k.Value)
						}
					}
				}
				return "Opt(" + f + ")"
			}
		}
	}
	return canonType(info.TypeOf(e))
}

func elemTypeName(t types.Type) string {
	if t == nil {
		return "?"
	}
	for {
		t = types.Unalias(t)
		if p, ok := t.Underlying().(*types.Pointer); ok {
			t = p.Elem()
			continue
		}
		break
	}
	switch u := t.Underlying().(type) {
	case *types.Slice:
		return canonType(u.Elem())
	case *types.Array:
		return canonType(u.Elem())
	}
	return "?" + canonType(t)
}

// canonType: pointers stripped; module types by short package name; generic
// option wrappers normalised; encoder/decoder interfaces unified.
func canonType(t types.Type) string {
	if t == nil {
		return "?"
	}
	for {
		t = types.Unalias(t)
		if p, ok := t.(*types.Pointer); ok {
			t = p.Elem()
			continue
		}
		break
	}
	switch v := t.(type) {
	case *types.TypeParam:
		// P constrained to *T stands for T
		if iface, ok := v.Constraint().Underlying().(*types.Interface); ok {
			for i := 0; i < iface.NumEmbeddeds(); i++ {
				et := types.Unalias(iface.EmbeddedType(i))
				if p, ok := et.(*types.Pointer); ok {
					return canonType(p.Elem())
				}
				if u, ok := et.(*types.Union); ok && u.Len() == 1 {
					if p, ok := types.Unalias(u.Term(0).Type()).(*types.Pointer); ok {
						return canonType(p.Elem())
					}
				}
			}
		}
		return "param:" + v.Obj().Name()
	case *types.Named:
		o := v.Obj()
		pk := ""
		if o.Pkg() != nil {
			pk = o.Pkg().Name()
			if o.Pkg().Path() == pkPath {
				pk = "pk"
			}
		}
		name := o.Name()
		if pk == "pk" {
			switch name {
			case "Option", "OptionEncoder", "OptionDecoder":
				if v.TypeArgs().Len() >= 1 {
					return "Option<" + canonType(v.TypeArgs().At(0)) + ">"
				}
				return "Option<T>"
			case "FieldEncoder", "FieldDecoder", "Field":
				return "dyn:Field"
			case "NBTField":
				return "NBT"
			}
		}
		if _, isIface := v.Underlying().(*types.Interface); isIface {
			if o.Pkg() != nil && o.Pkg().Path() == "io" && (name == "WriterTo" || name == "ReaderFrom") {
				return "dyn:Field"
			}
			return "dyn:" + pk + "." + name
		}
		s := pk + "." + name
		if v.TypeArgs().Len() > 0 {
			var as []string
			for i := 0; i < v.TypeArgs().Len(); i++ {
				as = append(as, canonType(v.TypeArgs().At(i)))
			}
			s += "[" + strings.Join(as, ",") + "]"
		}
		return s
	case *types.Interface:
		return "dyn:iface"
	}
	return types.TypeString(t, func(p *types.Package) string { return p.Name() })
}

// foldAry rewrites "K Rep{[E]}" into "Ary<K,E>" so that a hand-written counted
// loop compares equal to pk.Array.
func foldAry(p sigPath) sigPath {
	var out sigPath
	for i := 0; i < len(p); i++ {
		if i+1 < len(p) && strings.HasPrefix(p[i], "pk.") && strings.HasPrefix(p[i+1], "Rep{[") && strings.HasSuffix(p[i+1], "]}") {
			inner := strings.TrimSuffix(strings.TrimPrefix(p[i+1], "Rep{["), "]}")
			if !strings.ContainsAny(inner, " |{") {
				out = append(out, "Ary<"+p[i]+","+inner+">")
				i++
				continue
			}
		}
		out = append(out, p[i])
	}
	return out
}

func foldSet(s sigSet) sigSet {
	out := make(sigSet, len(s))
	for i, p := range s {
		out[i] = foldAry(p)
	}
	out = out.dedupe()
	// an early return after a common prefix (`if !present { return }` ... tail) and a branch that
	// rejoins (`if present { tail }`) are the same wire form: both are written prefix + Opt{[tail] else []}
	for changed := true; changed; {
		changed = false
	search:
		for i, p := range out {
			for j, q := range out {
				if i == j || len(q) <= len(p) {
					continue
				}
				pre := true
				for k := range p {
					if p[k] != q[k] {
						pre = false
						break
					}
				}
				if !pre {
					continue
				}
				tail := sigSet{append(sigPath(nil), q[len(p):]...)}
				merged := append(append(sigPath(nil), p...), "Opt{"+tail.render()+" else []}")
				var next sigSet
				for k, r := range out {
					if k != i && k != j {
						next = append(next, r)
					}
				}
				out = append(next, merged).dedupe()
				changed = true
				break search
			}
		}
	}
	return out
}

// rangeLiteral: the expression ranged over is a slice/array literal of fields (directly, or a local
// that holds one and is not reassigned).
func (w *wctx) rangeLiteral(x ast.Expr) *ast.CompositeLit {
	x = ast.Unparen(x)
	if id, ok := x.(*ast.Ident); ok {
		if def := w.defOf(id); def != nil {
			x = ast.Unparen(def)
		}
	}
	lit, ok := x.(*ast.CompositeLit)
	if !ok || len(lit.Elts) == 0 || len(lit.Elts) > 16 {
		return nil
	}
	t := w.info.TypeOf(lit)
	if t == nil {
		return nil
	}
	var el types.Type
	switch u := t.Underlying().(type) {
	case *types.Slice:
		el = u.Elem()
	case *types.Array:
		el = u.Elem()
	default:
		return nil
	}
	if _, isIface := el.Underlying().(*types.Interface); !isIface {
		return nil
	}
	return lit
}
