#!/bin/bash
# Runs every mutant of /verif/mutants/<prop>/*.diff against the check of <prop>.
cd /verif
jobs=${JOBS:-6}
ls mutants/*/*.diff | xargs -P "$jobs" -I{} bash -c 'p=$(basename $(dirname {})); tools/mutest.sh {} $p 2>&1 | head -3' | sort -k1,1 -k3
