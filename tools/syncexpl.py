#!/usr/bin/env python3
"""Copies technique + text of tools/manifest_src.json into the Explanation string of each PropDef
(gmcheck/rules/prop_*.go), so that evidence files and the manifest describe a check in the same words."""
import json,re,glob
d=json.load(open('/verif/tools/manifest_src.json'))
for f in glob.glob('/verif/gmcheck/rules/*.go'):
    s=open(f).read()
    def rep(m):
        ch=d['checks'].get(m.group(1))
        if not ch: return m.group(0)
        expl=ch['technique']+". Decided: "+ch['text']
        return m.group(0)[:m.start(2)-m.start(0)]+json.dumps(expl,ensure_ascii=False)
    s2=re.sub(r'Props\["(C\d\d)"\] = PropDef\{\s*Explanation:\s*("(?:[^"\\]|\\.)*")',rep,s)
    if s2!=s:
        open(f,'w').write(s2); print('updated',f)
