package main

import (
	"bytes"
	"fmt"

	"github.com/Tnze/go-mc/level"
	"github.com/Tnze/go-mc/nbt"
	"github.com/Tnze/go-mc/nbt/dynbt"
	pk "github.com/Tnze/go-mc/net/packet"
	"github.com/Tnze/go-mc/registry"
)

func try(name string, f func() error) {
	defer func() {
		if r := recover(); r != nil {
			fmt.Printf("%-28s PANIC %v\n", name, r)
		}
	}()
	err := f()
	fmt.Printf("%-28s err=%v\n", name, err)
}

var neg1 = []byte{0xff, 0xff, 0xff, 0xff, 0x0f} // VarInt -1

func main() {
	try("String", func() error { var s pk.String; _, e := s.ReadFrom(bytes.NewReader(neg1)); return e })
	try("ByteArray", func() error { var s pk.ByteArray; _, e := s.ReadFrom(bytes.NewReader(neg1)); return e })
	try("BitSet", func() error { var s pk.BitSet; _, e := s.ReadFrom(bytes.NewReader(neg1)); return e })
	try("BitStorage", func() error {
		s := level.NewBitStorage(4, 16, nil)
		_, e := s.ReadFrom(bytes.NewReader(neg1))
		return e
	})
	try("PaletteContainer(linear)", func() error {
		s := level.NewStatesPaletteContainer(4096, 0)
		_, e := s.ReadFrom(bytes.NewReader(append([]byte{4}, neg1...)))
		return e
	})
	try("PaletteContainer(hash)", func() error {
		s := level.NewStatesPaletteContainer(4096, 0)
		_, e := s.ReadFrom(bytes.NewReader(append([]byte{6}, neg1...)))
		return e
	})
	try("Registry.ReadTagsFrom", func() error {
		r := registry.NewRegistry[nbt.RawMessage]()
		// count=1, tag "a", length=-1
		_, e := r.ReadTagsFrom(bytes.NewReader(append([]byte{1, 1, 'a'}, neg1...)))
		return e
	})
	// frames
	try("UnPack comp negative len", func() error {
		var p pk.Packet
		return p.UnPack(bytes.NewReader(neg1), 0)
	})
	try("UnPack comp dataLen<idLen", func() error {
		var p pk.Packet
		// build: dataLength=1, zlib(id=0x80 0x01 -> 2 bytes)
		var q pk.Packet
		q.ID = 128
		var buf bytes.Buffer
		_ = q.Pack(&buf, 0)
		b := buf.Bytes()
		// b = [pktlen][datalen=2][zlib...]; patch datalen to 1
		b[1] = 1
		return p.UnPack(bytes.NewReader(b), 0)
	})
	try("UnPack comp plain > max", func() error {
		var p pk.Packet
		n := pk.MaxDataLength + 10
		var buf bytes.Buffer
		pk.VarInt(n+2).WriteTo(&buf)
		buf.WriteByte(0) // datalength 0
		buf.WriteByte(1) // id
		buf.Write(make([]byte, n))
		e := p.UnPack(&buf, 0)
		if e == nil {
			return fmt.Errorf("ACCEPTED payload of %d bytes", len(p.Data))
		}
		return e
	})
	// nbt
	try("nbt IntArray -1 into any", func() error { var v any; return nbt.Unmarshal([]byte{11, 0, 0, 0xff, 0xff, 0xff, 0xff}, &v) })
	try("nbt LongArray -1 into any", func() error { var v any; return nbt.Unmarshal([]byte{12, 0, 0, 0xff, 0xff, 0xff, 0xff}, &v) })
	try("nbt Raw ByteArray -1", func() error { var v nbt.RawMessage; return nbt.Unmarshal([]byte{7, 0, 0, 0xff, 0xff, 0xff, 0xff}, &v) })
	try("nbt Raw IntArray -1", func() error { var v nbt.RawMessage; return nbt.Unmarshal([]byte{11, 0, 0, 0xff, 0xff, 0xff, 0xff}, &v) })
	try("nbt Raw List -1", func() error { var v nbt.RawMessage; return nbt.Unmarshal([]byte{9, 0, 0, 1, 0xff, 0xff, 0xff, 0xff}, &v) })
	try("snbt ByteArray -1", func() error {
		var v nbt.StringifiedMessage
		e := nbt.Unmarshal([]byte{7, 0, 0, 0xff, 0xff, 0xff, 0xff}, &v)
		if e == nil {
			return fmt.Errorf("ACCEPTED as %q", string(v))
		}
		return e
	})
	try("snbt List -1", func() error {
		var v nbt.StringifiedMessage
		e := nbt.Unmarshal([]byte{9, 0, 0, 1, 0xff, 0xff, 0xff, 0xff}, &v)
		if e == nil {
			return fmt.Errorf("ACCEPTED as %q", string(v))
		}
		return e
	})
	try("dynbt ByteArray -1", func() error { var v dynbt.Value; return nbt.Unmarshal([]byte{7, 0, 0, 0xff, 0xff, 0xff, 0xff}, &v) })
	try("dynbt String -1", func() error { var v dynbt.Value; return nbt.Unmarshal([]byte{8, 0, 0, 0xff, 0xff}, &v) })
	try("dynbt IntArray 2^29", func() error { var v dynbt.Value; return nbt.Unmarshal([]byte{11, 0, 0, 0x20, 0, 0, 0}, &v) })
	try("dynbt List -1", func() error { var v dynbt.Value; return nbt.Unmarshal([]byte{9, 0, 0, 1, 0xff, 0xff, 0xff, 0xff}, &v) })
	try("dynbt unknown tag 13", func() error { var v dynbt.Value; return nbt.Unmarshal([]byte{13, 0, 0}, &v) })
}
