package rules

// R-NOALIAS, two further instances (after the seeded changes C02-1 and C13-3):
//
//   - AppendOwnership: the result of append(base, ...) where base is read from a
//     field or element of some object goes back to that same place; it is not
//     kept under another name (when base has spare capacity both names share
//     the backing array and the next append through either overwrites the other).
//   - LoopDecodeTargets: a variable that is the target of a decoder call inside a
//     loop, lives across the iterations and holds a reference (slice, map), is not
//     copied out inside the loop: decoders such as nbt.RawMessage re-use the
//     target's buffer, so every copy taken in an earlier iteration changes with
//     the next decode.

import (
	"fmt"
	"go/token"
	"go/types"
	"strings"

	"gmcheck/core"

	"golang.org/x/tools/go/ssa"
)

// addrKey names the location an address value denotes (access path).
func addrKey(v ssa.Value) string {
	switch x := v.(type) {
	case *ssa.Alloc:
		return "a:" + x.Name()
	case *ssa.Parameter:
		return "p:" + x.Name()
	case *ssa.FreeVar:
		return "f:" + x.Name()
	case *ssa.Global:
		return "g:" + x.String()
	case *ssa.FieldAddr:
		if st, ok := deref(x.X.Type()).Underlying().(*types.Struct); ok && x.Field < st.NumFields() {
			return addrKey(x.X) + "." + st.Field(x.Field).Name()
		}
		return addrKey(x.X) + ".?"
	case *ssa.IndexAddr:
		return addrKey(x.X) + "[]"
	case *ssa.UnOp:
		if x.Op == token.MUL {
			return "*(" + addrKey(x.X) + ")"
		}
	case *ssa.ChangeType:
		return addrKey(x.X)
	case *ssa.Phi:
		return "v:" + x.Name()
	}
	return "v:" + v.Name()
}

// AppendOwnership implements the first instance over the given packages.
func (c *Ctx) AppendOwnership(pkgs ...string) []core.Ob {
	var obs []core.Ob
	n, sites := 0, 0
	for _, fn := range c.Funcs() {
		if !inPkgs(fn, pkgs...) {
			continue
		}
		for _, b := range fn.Blocks {
			for _, in := range b.Instrs {
				call, ok := in.(*ssa.Call)
				if !ok {
					continue
				}
				bi, ok := call.Common().Value.(*ssa.Builtin)
				if !ok || bi.Name() != "append" || len(call.Common().Args) != 2 {
					continue
				}
				sites++
				// base: a load of a field / element of another object, possibly re-sliced from 0
				base := call.Common().Args[0]
				resliced := false
				for {
					if sl, ok := base.(*ssa.Slice); ok {
						// x[:0] / x[:k] keep the backing array; x[:n:n] (full slice expression) does not share spare capacity
						if sl.Max != nil {
							base = nil
							break
						}
						base, resliced = sl.X, true
						continue
					}
					if ct, ok := base.(*ssa.ChangeType); ok {
						base = ct.X
						continue
					}
					break
				}
				if base == nil {
					continue
				}
				ld, ok := base.(*ssa.UnOp)
				if !ok || ld.Op != token.MUL {
					continue // a fresh or local value (make, literal, nil, call result, SSA-promoted local)
				}
				src := addrKey(ld.X)
				if !strings.Contains(src, ".") && !strings.Contains(src, "[]") {
					continue // a plain local variable kept in memory: owned by the function
				}
				_ = resliced
				// where the result goes
				var bad []string
				var visit func(v ssa.Value, d int)
				seen := map[ssa.Value]bool{}
				visit = func(v ssa.Value, d int) {
					if seen[v] || d > 4 || v.Referrers() == nil {
						return
					}
					seen[v] = true
					for _, r := range *v.Referrers() {
						switch x := r.(type) {
						case *ssa.Store:
							if x.Val == v {
								if dst := addrKey(x.Addr); dst != src {
									bad = append(bad, "stored to "+dst)
								}
							}
						case *ssa.Phi:
							visit(x, d+1)
						case *ssa.ChangeType:
							visit(x, d+1)
						case *ssa.Return:
							bad = append(bad, "returned")
						case *ssa.MakeInterface:
							bad = append(bad, "boxed into an interface")
						}
					}
				}
				visit(call, 0)
				n++
				o := core.Ob{Rule: "R-NOALIAS", Key: fmt.Sprintf("%s#append-owner%d", core.FnName(fn), n), Pos: c.P.Pos(call.Pos()), Func: core.FnName(fn), Armed: true, Status: core.OK,
					Want: "append onto a slice read from a field or element of an object puts the result back into that same place (x.f = append(x.f, ..)); a result kept elsewhere shares x.f's spare capacity with it"}
				if len(bad) > 0 {
					o.Status = core.Violated
					o.Got = "append(" + src + ", ...) is " + strings.Join(bad, ", ") + ": when the base has spare capacity both slices share one backing array"
				}
				obs = append(obs, o)
			}
		}
	}
	obs = append(obs, core.Ob{Rule: "R-NOALIAS", Key: strings.Join(pkgs, ",") + ":append-sites", Armed: true, Status: core.OK,
		Want: "append sites of the packages are examined", Got: fmt.Sprintf("%d append calls, %d onto a field or element of another object", sites, n)})
	if sites == 0 {
		obs[len(obs)-1].Status = core.Violated
	}
	return obs
}

// LoopDecodeTargets implements the second instance over the given packages.
func (c *Ctx) LoopDecodeTargets(pkgs ...string) []core.Ob {
	var obs []core.Ob
	n, loopsWithDecode := 0, 0
	holdsRef := func(t types.Type) bool {
		var has func(t types.Type, d int) bool
		has = func(t types.Type, d int) bool {
			if d > 3 {
				return false
			}
			switch u := t.Underlying().(type) {
			case *types.Slice, *types.Map, *types.Pointer:
				return true
			case *types.Struct:
				for i := 0; i < u.NumFields(); i++ {
					if has(u.Field(i).Type(), d+1) {
						return true
					}
				}
			}
			return false
		}
		return has(t, 0)
	}
	isDecode := func(cc *ssa.CallCommon) (ssa.Value, bool) {
		name := calleeName(cc)
		if cc.IsInvoke() {
			name = cc.Method.Name()
		}
		short := name[strings.LastIndex(name, ".")+1:]
		switch short {
		case "Decode", "Unmarshal", "UnmarshalNBT", "ReadFrom", "Scan":
		default:
			return nil, false
		}
		// the target: a pointer argument (boxed or not)
		for _, a := range cc.Args {
			v := a
			if mi, ok := v.(*ssa.MakeInterface); ok {
				v = mi.X
			}
			if al, ok := v.(*ssa.Alloc); ok {
				return al, true
			}
		}
		return nil, false
	}
	for _, fn := range c.Funcs() {
		if !inPkgs(fn, pkgs...) {
			continue
		}
		for _, lp := range naturalLoops(fn) {
			for b := range lp.body {
				for _, in := range b.Instrs {
					ci, ok := in.(ssa.CallInstruction)
					if !ok {
						continue
					}
					tgt, ok := isDecode(ci.Common())
					if !ok {
						continue
					}
					al := tgt.(*ssa.Alloc)
					loopsWithDecode++
					// lives across iterations: allocated outside the loop body
					if lp.body[al.Block()] || !holdsRef(deref(al.Type())) {
						continue
					}
					n++
					o := core.Ob{Rule: "R-NOALIAS", Key: fmt.Sprintf("%s#loop-decode-target%d", core.FnName(fn), n), Pos: c.P.Pos(ci.Pos()), Func: core.FnName(fn), Armed: true, Status: core.OK,
						Want: "a decode target that outlives the loop iteration and holds a slice or map is not copied out inside the loop (decoders re-use the target's buffer: earlier copies would change with the next decode)"}
					if al.Referrers() != nil {
						for _, r := range *al.Referrers() {
							ld, ok := r.(*ssa.UnOp)
							if !ok || ld.Op != token.MUL || !lp.body[ld.Block()] || ld.Referrers() == nil {
								continue
							}
							uses := append([]ssa.Instruction(nil), *ld.Referrers()...)
							// boxed copies (an element of a []any): the interface value is what gets stored
							for _, u := range *ld.Referrers() {
								if mi, ok := u.(*ssa.MakeInterface); ok && mi.Referrers() != nil {
									for _, uu := range *mi.Referrers() {
										if st, ok := uu.(*ssa.Store); ok && st.Val == ssa.Value(mi) {
											o.Status = core.Violated
											o.Got = "the target " + al.Comment + " is decoded into on every iteration and its value is copied to " + addrKey(st.Addr) + " inside the loop: what one element leaves behind shows up in the next, and all copies share their slices and pointers"
											o.Pos = c.P.Pos(st.Pos())
										}
									}
								}
							}
							for _, u := range uses {
								if st, ok := u.(*ssa.Store); ok && st.Val == ssa.Value(ld) && st.Addr != ssa.Value(al) {
									o.Status = core.Violated
									o.Got = "the target " + al.Comment + " is decoded into on every iteration and its value is copied to " + addrKey(st.Addr) + " inside the loop: all copies share one buffer"
									o.Pos = c.P.Pos(st.Pos())
								}
							}
						}
					}
					obs = append(obs, o)
				}
			}
		}
	}
	obs = append(obs, core.Ob{Rule: "R-NOALIAS", Key: strings.Join(pkgs, ",") + ":loop-decodes", Armed: true, Status: core.OK,
		Want: "decoder calls inside loops are examined", Got: fmt.Sprintf("%d decoder calls inside loops, %d into a reference-holding variable that outlives the iteration", loopsWithDecode, n)})
	return obs
}

// RegionFindSpace (R-ORDER, after the seeded change C15-3): the free-space
// search of a region file accepts a position only after all `need` sectors
// from it were looked up: the inner counting loop over the sector map is left
// only through its header test (counter reached `need`), never by a break or
// return from its body.
func (c *Ctx) RegionFindSpace() []core.Ob {
	o := core.Ob{Rule: "R-ORDER", Key: "region:findSpace:checks-every-needed-sector", Armed: true, Status: core.OK,
		Want: "the free-space search leaves its sector-counting loop only when the counter has reached the number of sectors needed (no other exit from the loop body that can reach a return without counting anew): a position is accepted only if every sector it would cover was looked up"}
	var found *ssa.Function
	for _, fn := range methodsOfType(c, "save/region.Region") {
		if len(fn.Params) < 2 {
			continue
		}
		for _, lp := range naturalLoops(fn) {
			iff, ok := lp.header.Instrs[len(lp.header.Instrs)-1].(*ssa.If)
			if !ok {
				continue
			}
			cmp, ok := iff.Cond.(*ssa.BinOp)
			if !ok || cmp.Op != token.LSS {
				continue
			}
			// counter < parameter
			if _, isParam := stripConv(cmp.Y).(*ssa.Parameter); !isParam {
				continue
			}
			// the loop looks sectors up in a map field of the region
			looksUp := false
			for b := range lp.body {
				for _, in := range b.Instrs {
					if lk, ok := in.(*ssa.Lookup); ok {
						if _, isMap := lk.X.Type().Underlying().(*types.Map); isMap && rootFieldOfAddr(loadAddr(lk.X), fn.Params[0]) != "" {
							looksUp = true
						}
					}
				}
			}
			if !looksUp {
				continue
			}
			found = fn
			o.Pos, o.Func = c.P.Pos(fn.Pos()), core.FnName(fn)
			for b := range lp.body {
				if b == lp.header {
					continue
				}
				for _, s := range b.Succs {
					if lp.body[s] {
						continue
					}
					// leaving the count to start it again somewhere else (`continue outer`) accepts nothing:
					// only an exit from which the function can return without counting anew does
					accepts := false
					for _, rb := range fn.Blocks {
						if len(rb.Instrs) == 0 {
							continue
						}
						if _, isRet := rb.Instrs[len(rb.Instrs)-1].(*ssa.Return); isRet && (s == rb || blockReachesAvoiding(s, rb, lp.header)) {
							accepts = true
						}
					}
					if accepts {
						o.Status, o.Got = core.Violated, "the loop body leaves the search loop (break/return) before the counter reaches the number of sectors needed: sectors that were never looked up are taken to be free"
						o.Pos = c.P.Pos(b.Instrs[len(b.Instrs)-1].Pos())
					}
				}
			}
		}
	}
	if found == nil {
		o.Status, o.Got = core.Violated, "no method of Region counts sectors of its map up to a parameter: the free-space search is not recognised"
	}
	return []core.Ob{o}
}
