package rules

// Rules added after the third round of independently seeded changes. Each one
// is a structural necessary condition of the property it is bound to; none of
// them mentions the text of a seeded change.

import (
	"fmt"
	"go/ast"
	"go/constant"
	"go/token"
	"go/types"
	"sort"
	"strings"

	"gmcheck/core"

	"golang.org/x/tools/go/ssa"
)

// ---------------------------------------------------------------------------
// T-TAGWIDTH: payload widths of the fixed-width NBT tags.
//
// The format fixes them: Byte 1, Short 2, Int 4, Long 8, Float 4, Double 8.
// (a) a clause of a switch over tag constants that belongs to one of these
// tags and performs stream I/O of a constant size performs it with that size;
// (b) a constant table indexed by tag (array/slice literal of 7..13 small
// integers whose entries 1..6 are all powers of two up to 8, or a map literal
// keyed by Tag constants) lists those widths.

var nbtFixedWidth = map[int64]int64{1: 1, 2: 2, 3: 4, 4: 8, 5: 4, 6: 8}

// ioWidth: the number of bytes a call moves when that is a constant visible at the call (0: not such a call).
func ioWidth(info *types.Info, call *ast.CallExpr) int64 {
	constLenOf := func(e ast.Expr) int64 {
		e = ast.Unparen(e)
		switch x := e.(type) {
		case *ast.SliceExpr:
			lo := int64(0)
			if x.Low != nil {
				tv, ok := info.Types[x.Low]
				if !ok || tv.Value == nil {
					return 0
				}
				lo, _ = constant.Int64Val(tv.Value)
			}
			if x.High != nil {
				tv, ok := info.Types[x.High]
				if !ok || tv.Value == nil {
					return 0
				}
				hi, _ := constant.Int64Val(tv.Value)
				return hi - lo
			}
			if tv, ok := info.Types[x.X]; ok {
				if at, ok := deref(tv.Type).Underlying().(*types.Array); ok {
					return at.Len() - lo
				}
			}
		case *ast.CompositeLit:
			if tv, ok := info.Types[x]; ok {
				if _, isSl := tv.Type.Underlying().(*types.Slice); isSl {
					for _, el := range x.Elts {
						if _, kv := el.(*ast.KeyValueExpr); kv {
							return 0
						}
					}
					return int64(len(x.Elts))
				}
			}
		}
		return 0
	}
	sizeOfType := func(t types.Type) int64 {
		if p, ok := t.Underlying().(*types.Pointer); ok {
			t = p.Elem()
		}
		if b, ok := t.Underlying().(*types.Basic); ok {
			switch b.Kind() {
			case types.Int8, types.Uint8, types.Bool:
				return 1
			case types.Int16, types.Uint16:
				return 2
			case types.Int32, types.Uint32, types.Float32:
				return 4
			case types.Int64, types.Uint64, types.Float64:
				return 8
			}
		}
		return 0
	}
	sel, _ := ast.Unparen(call.Fun).(*ast.SelectorExpr)
	if sel == nil {
		return 0
	}
	fo, _ := info.Uses[sel.Sel].(*types.Func)
	if fo == nil {
		return 0
	}
	pkg := ""
	if fo.Pkg() != nil {
		pkg = fo.Pkg().Path()
	}
	sig, _ := fo.Type().(*types.Signature)
	isMethod := sig != nil && sig.Recv() != nil
	switch {
	case pkg == "io" && !isMethod && (fo.Name() == "ReadFull" || fo.Name() == "ReadAtLeast") && len(call.Args) >= 2:
		return constLenOf(call.Args[1])
	case pkg == "io" && !isMethod && fo.Name() == "CopyN" && len(call.Args) == 3:
		if tv, ok := info.Types[call.Args[2]]; ok && tv.Value != nil {
			n, _ := constant.Int64Val(tv.Value)
			return n
		}
	case pkg == "encoding/binary" && !isMethod && (fo.Name() == "Read" || fo.Name() == "Write") && len(call.Args) == 3:
		if tv, ok := info.Types[call.Args[2]]; ok {
			return sizeOfType(tv.Type)
		}
	case isMethod && (fo.Name() == "ReadByte" || fo.Name() == "WriteByte"):
		return 1
	case isMethod && (fo.Name() == "Read" || fo.Name() == "Write") && len(call.Args) == 1:
		return constLenOf(call.Args[0])
	}
	return 0
}

func (c *Ctx) TagWidths(pkgs ...string) []core.Ob {
	var obs []core.Ob
	// (a) clauses
	for _, ts := range c.tagSwitches(pkgs...) {
		vals := make([]int64, 0, len(ts.cases))
		for v := range ts.cases {
			vals = append(vals, v)
		}
		sort.Slice(vals, func(i, j int) bool { return vals[i] < vals[j] })
		for _, v := range vals {
			want, fixed := nbtFixedWidth[v]
			if !fixed {
				continue
			}
			cc := ts.cases[v]
			seen := map[int64]token.Pos{}
			for _, hb := range c.withHelpers(ts.pkg, cc, ts.decl, 1) {
				// a helper that itself dispatches on something is not a fixed-size reader
				if hb.decl != nil {
					branching := false
					ast.Inspect(hb.node, func(n ast.Node) bool {
						switch n.(type) {
						case *ast.SwitchStmt, *ast.TypeSwitchStmt, *ast.ForStmt, *ast.RangeStmt:
							branching = true
						}
						return !branching
					})
					if branching {
						continue
					}
				}
				ast.Inspect(hb.node, func(n ast.Node) bool {
					if call, ok := n.(*ast.CallExpr); ok {
						if w := ioWidth(hb.pk.TypesInfo, call); w > 0 {
							if _, dup := seen[w]; !dup {
								seen[w] = call.Pos()
							}
						}
					}
					return true
				})
			}
			if len(seen) == 0 {
				continue
			}
			o := core.Ob{Rule: "T-TAGWIDTH", Key: fmt.Sprintf("%s#%d:%s", ts.fn, ts.ordinal, ts.names[v]), Pos: c.P.Pos(cc.Pos()), Func: ts.fn, Armed: true, Status: core.OK,
				Want: fmt.Sprintf("the clause for %s moves %d byte(s) of payload", ts.names[v], want)}
			var got []string
			for w := range seen {
				if w != want {
					got = append(got, fmt.Sprintf("%d bytes at %s", w, c.P.Pos(seen[w])))
				}
			}
			sort.Strings(got)
			if len(got) > 0 {
				o.Status = core.Violated
				o.Got = "constant-size stream I/O of " + strings.Join(got, ", ")
			}
			obs = append(obs, o)
		}
	}
	// (b) tables
	ntab := 0
	for _, pk := range c.P.Pkgs {
		rel := core.Rel(pk.PkgPath)
		in := false
		for _, p := range pkgs {
			in = in || rel == p
		}
		if !in {
			continue
		}
		info := pk.TypesInfo
		for _, f := range pk.Syntax {
			ast.Inspect(f, func(n ast.Node) bool {
				cl, ok := n.(*ast.CompositeLit)
				if !ok {
					return true
				}
				tv, ok := info.Types[cl]
				if !ok {
					return true
				}
				entries := map[int64]int64{}
				isInt := func(t types.Type) bool {
					b, ok := t.Underlying().(*types.Basic)
					return ok && b.Info()&types.IsInteger != 0
				}
				byTagKey := false
				switch tt := tv.Type.Underlying().(type) {
				case *types.Array, *types.Slice:
					var el types.Type
					if a, ok := tt.(*types.Array); ok {
						el = a.Elem()
					} else {
						el = tt.(*types.Slice).Elem()
					}
					if !isInt(el) {
						return true
					}
					idx := int64(0)
					for _, e := range cl.Elts {
						val := e
						if kv, ok := e.(*ast.KeyValueExpr); ok {
							ktv, ok := info.Types[kv.Key]
							if !ok || ktv.Value == nil {
								return true
							}
							idx, _ = constant.Int64Val(ktv.Value)
							if _, _, isTag := tagConst(info, kv.Key); isTag {
								byTagKey = true
							}
							val = kv.Value
						}
						vtv, ok := info.Types[val]
						if !ok || vtv.Value == nil {
							return true
						}
						x, _ := constant.Int64Val(vtv.Value)
						entries[idx] = x
						idx++
					}
					if !byTagKey {
						if idx < 7 || idx > 13 {
							return true
						}
						for t := int64(1); t <= 6; t++ {
							if x := entries[t]; x != 1 && x != 2 && x != 4 && x != 8 {
								return true
							}
						}
					}
				case *types.Map:
					if !isInt(tt.Elem()) {
						return true
					}
					for _, e := range cl.Elts {
						kv, ok := e.(*ast.KeyValueExpr)
						if !ok {
							return true
						}
						_, k, isTag := tagConst(info, kv.Key)
						if !isTag {
							return true
						}
						vtv, ok := info.Types[kv.Value]
						if !ok || vtv.Value == nil {
							return true
						}
						x, _ := constant.Int64Val(vtv.Value)
						entries[k] = x
						byTagKey = true
					}
				default:
					return true
				}
				if byTagKey {
					// a table keyed by tag constants is a width table only if it looks like one
					nfixed := 0
					for t := int64(1); t <= 6; t++ {
						if x, ok := entries[t]; ok && (x == 1 || x == 2 || x == 4 || x == 8) {
							nfixed++
						}
					}
					if nfixed < 3 {
						return true
					}
				}
				ntab++
				o := core.Ob{Rule: "T-TAGWIDTH", Key: fmt.Sprintf("%s#table%d", rel, ntab), Pos: c.P.Pos(cl.Pos()), Armed: true, Status: core.OK,
					Want: "a table of payload widths indexed by tag lists Byte 1, Short 2, Int 4, Long 8, Float 4, Double 8"}
				var bad []string
				for t := int64(1); t <= 6; t++ {
					if x, ok := entries[t]; ok && x != nbtFixedWidth[t] {
						bad = append(bad, fmt.Sprintf("tag %d -> %d (want %d)", t, x, nbtFixedWidth[t]))
					}
				}
				if len(bad) > 0 {
					o.Status = core.Violated
					o.Got = strings.Join(bad, ", ")
				}
				obs = append(obs, o)
				return true
			})
		}
	}
	return obs
}

// ---------------------------------------------------------------------------
// R-ORDER[palette-read:fresh-palette]: PaletteContainer.ReadFrom decodes the
// palette into a palette object created in that same call: on every path to
// the call of ReadFrom on the receiver's palette field, that field has been
// assigned the result of a call (config.create) before. A palette kept from
// an earlier decode is refilled by appending (linear) or keeps entries (hash).

func (c *Ctx) PaletteReadResets() []core.Ob {
	o := core.Ob{Rule: "R-ORDER", Key: "palette-read:fresh-palette", Armed: true, Status: core.OK,
		Want: "PaletteContainer.ReadFrom assigns a newly created palette to the container on every path before it decodes the palette entries into it"}
	fn := c.Fn("level.(*PaletteContainer).ReadFrom")
	if fn == nil {
		o.Status, o.Got = core.Violated, "level.(*PaletteContainer).ReadFrom not found"
		return []core.Ob{o}
	}
	o.Pos, o.Func = c.P.Pos(fn.Pos()), core.FnName(fn)
	v := c.inlineView(fn, 2)
	n := 0
	for _, nd := range v.nodes {
		call, ok := nd.in.(*ssa.Call)
		if !ok || !call.Common().IsInvoke() || call.Common().Method.Name() != "ReadFrom" {
			continue
		}
		ld, ok := call.Common().Value.(*ssa.UnOp)
		if !ok || ld.Op != token.MUL {
			continue
		}
		f := v.recvField(nd, ld.X)
		if f == "" || strings.Contains(f, ".") {
			continue
		}
		n++
		fresh := false
		for _, m := range v.nodes {
			st, ok := m.in.(*ssa.Store)
			if !ok || v.recvField(m, st.Addr) != f || !v.dominates(m.id, nd.id) {
				continue
			}
			val := st.Val
			for {
				switch x := val.(type) {
				case *ssa.MakeInterface:
					val = x.X
					continue
				case *ssa.ChangeInterface:
					val = x.X
					continue
				}
				break
			}
			switch val.(type) {
			case *ssa.Call, *ssa.Alloc:
				fresh = true
			}
		}
		if !fresh {
			o.Status = core.Violated
			o.Got = fmt.Sprintf("the decode into field %s at %s is not preceded on every path by an assignment of a newly created value to that field: entries of an earlier decode survive", f, c.P.Pos(call.Pos()))
		}
	}
	if n == 0 {
		o.Status, o.Got = core.Violated, "no decode into an interface-typed field of the receiver found"
	}
	return []core.Ob{o}
}

// ---------------------------------------------------------------------------
// T-HEIGHTMAP[network]: Chunk.ReadFrom fills each height-map field of the chunk
// from the decoded field of the same name (or nbt key); no two chunk fields
// are filled from the same decoded field.

func normName(s string) string {
	var b strings.Builder
	for _, r := range strings.ToLower(s) {
		if r >= 'a' && r <= 'z' || r >= '0' && r <= '9' {
			b.WriteRune(r)
		}
	}
	return b.String()
}

// srcFields: the fields of local (non-receiver) structs whose loaded values may flow into v.
func (c *Ctx) srcFields(v ssa.Value, bind map[*ssa.Parameter]ssa.Value, depth int, out map[string]*types.Var) {
	if depth > 6 || v == nil {
		return
	}
	switch x := v.(type) {
	case *ssa.UnOp:
		if x.Op == token.MUL {
			if fa, ok := x.X.(*ssa.FieldAddr); ok {
				if st, ok := deref(fa.X.Type()).Underlying().(*types.Struct); ok {
					// a field of a local variable (or of a captured one)
					base := fa.X
					if ld, ok := base.(*ssa.UnOp); ok {
						base = ld.X
					}
					switch base.(type) {
					case *ssa.Alloc, *ssa.FreeVar:
						out[st.Field(fa.Field).Name()] = st.Field(fa.Field)
						return
					}
				}
			}
			c.srcFields(x.X, bind, depth+1, out)
		}
	case *ssa.Parameter:
		if a, ok := bind[x]; ok {
			c.srcFields(a, bind, depth+1, out)
		}
	case *ssa.Extract:
		c.srcFields(x.Tuple, bind, depth+1, out)
	case *ssa.Phi:
		for _, e := range x.Edges {
			c.srcFields(e, bind, depth+1, out)
		}
	case *ssa.MakeInterface:
		c.srcFields(x.X, bind, depth+1, out)
	case *ssa.ChangeType:
		c.srcFields(x.X, bind, depth+1, out)
	case *ssa.Convert:
		c.srcFields(x.X, bind, depth+1, out)
	case *ssa.Slice:
		c.srcFields(x.X, bind, depth+1, out)
	case *ssa.Call:
		for _, a := range x.Common().Args {
			c.srcFields(a, bind, depth+1, out)
		}
		if g := x.Common().StaticCallee(); g != nil && len(g.Blocks) > 0 && g.Parent() != nil {
			// a local closure: what it returns, with its parameters bound to the arguments
			nb := map[*ssa.Parameter]ssa.Value{}
			for k, val := range bind {
				nb[k] = val
			}
			for i, p := range g.Params {
				if i < len(x.Common().Args) {
					nb[p] = x.Common().Args[i]
				}
			}
			for _, b := range g.Blocks {
				if ret, ok := b.Instrs[len(b.Instrs)-1].(*ssa.Return); ok {
					for _, r := range ret.Results {
						if !types.Identical(r.Type(), errType) {
							c.srcFields(r, nb, depth+1, out)
						}
					}
				}
			}
		}
	}
}

func (c *Ctx) HeightMapNetwork() []core.Ob {
	fn := c.Fn("level.(*Chunk).ReadFrom")
	if fn == nil {
		return []core.Ob{{Rule: "T-HEIGHTMAP", Key: "network:anchors", Armed: true, Status: core.Violated, Want: "level.(*Chunk).ReadFrom exists", Got: "not found"}}
	}
	type asg struct {
		dst  string
		pos  token.Pos
		srcs map[string]*types.Var
	}
	var as []asg
	dests := map[string]bool{}
	for _, g := range c.withPkgCallees(fn, 1) {
		for _, b := range g.Blocks {
			for _, in := range b.Instrs {
				st, ok := in.(*ssa.Store)
				if !ok {
					continue
				}
				fa, ok := st.Addr.(*ssa.FieldAddr)
				if !ok {
					continue
				}
				outer, ok := fa.X.(*ssa.FieldAddr)
				if !ok {
					continue
				}
				if p, isP := outer.X.(*ssa.Parameter); !isP || len(g.Params) == 0 || p != g.Params[0] {
					if _, isFV := outer.X.(*ssa.FreeVar); !isFV {
						continue
					}
				}
				stt, ok := deref(fa.X.Type()).Underlying().(*types.Struct)
				if !ok || !isNamed(deref(stt.Field(fa.Field).Type()), core.ModPath+"/level", "BitStorage") {
					continue
				}
				a := asg{dst: stt.Field(fa.Field).Name(), pos: st.Pos(), srcs: map[string]*types.Var{}}
				c.srcFields(st.Val, nil, 0, a.srcs)
				as = append(as, a)
				for i := 0; i < stt.NumFields(); i++ {
					dests[normName(stt.Field(i).Name())] = true
				}
			}
		}
	}
	var obs []core.Ob
	usedBy := map[string]string{}
	for _, a := range as {
		o := core.Ob{Rule: "T-HEIGHTMAP", Key: "network:" + a.dst, Pos: c.P.Pos(a.pos), Func: core.FnName(fn), Armed: true, Status: core.OK,
			Want: "the chunk's " + a.dst + " height map is built from the decoded field of that name, and from no field another height map is built from"}
		var names []string
		for s := range a.srcs {
			names = append(names, s)
		}
		sort.Strings(names)
		o.Got = "from " + strings.Join(names, ",")
		for _, s := range names {
			fv := a.srcs[s]
			cands := []string{normName(s)}
			_ = fv
			if other, dup := usedBy[s]; dup && other != a.dst {
				o.Status, o.Got = core.Violated, fmt.Sprintf("built from decoded field %s, which %s is also built from", s, other)
			}
			usedBy[s] = a.dst
			for _, cn := range cands {
				if cn != normName(a.dst) && dests[cn] {
					o.Status, o.Got = core.Violated, fmt.Sprintf("built from decoded field %s, the data of another height map", s)
				}
			}
		}
		obs = append(obs, o)
	}
	n := core.Ob{Rule: "T-HEIGHTMAP", Key: "network:count", Pos: c.P.Pos(fn.Pos()), Func: core.FnName(fn), Armed: true, Status: core.OK,
		Want: "Chunk.ReadFrom fills at least two height-map fields of the chunk from decoded data"}
	if len(as) < 2 {
		n.Status, n.Got = core.Violated, fmt.Sprintf("%d assignments found", len(as))
	}
	return append(obs, n)
}

// ---------------------------------------------------------------------------
// T-BITFIELD: where a word is packed as an OR of shifted fields, the bit ranges
// the fields can occupy are pairwise disjoint. The range of a field is computed
// from the expression alone: masks (x & const), the width of unsigned types,
// shifts by constants; a signed value that is widened or shifted without a
// mask may be negative and then occupies every bit above its position.

type bitRange struct{ lo, hi int } // [lo, hi)

func typeBits(t types.Type) (bits int, signed bool) {
	b, ok := t.Underlying().(*types.Basic)
	if !ok {
		return 64, true
	}
	switch b.Kind() {
	case types.Int8:
		return 8, true
	case types.Int16:
		return 16, true
	case types.Int32:
		return 32, true
	case types.Int64, types.Int:
		return 64, true
	case types.Uint8:
		return 8, false
	case types.Uint16:
		return 16, false
	case types.Uint32:
		return 32, false
	case types.Uint64, types.Uint, types.Uintptr:
		return 64, false
	case types.Bool:
		return 1, false
	}
	return 64, true
}

func bitLen(x int64) int {
	n := 0
	for ; x > 0; x >>= 1 {
		n++
	}
	return n
}

// bitsOf: the bit positions v may have set, as one range (over-approximation).
func bitsOf(v ssa.Value, depth int) bitRange {
	tb, signed := typeBits(v.Type())
	full := bitRange{0, tb}
	if depth > 8 {
		return full
	}
	switch x := v.(type) {
	case *ssa.Const:
		if k, ok := constIntVal(x); ok && k >= 0 {
			lo := 0
			for k != 0 && (k>>uint(lo))&1 == 0 {
				lo++
			}
			return bitRange{lo, bitLen(k)}
		}
		return full
	case *ssa.BinOp:
		switch x.Op {
		case token.AND:
			a, b := bitsOf(x.X, depth+1), bitsOf(x.Y, depth+1)
			// a negative operand has all upper bits: the other operand bounds the result
			r := bitRange{max(a.lo, b.lo), min(a.hi, b.hi)}
			return r
		case token.OR, token.XOR:
			a, b := bitsOf(x.X, depth+1), bitsOf(x.Y, depth+1)
			return bitRange{min(a.lo, b.lo), max(a.hi, b.hi)}
		case token.SHL:
			if k, ok := constIntVal(x.Y); ok && k >= 0 {
				a := bitsOf(x.X, depth+1)
				return bitRange{min(a.lo+int(k), tb), min(a.hi+int(k), tb)}
			}
			return full
		case token.SHR:
			if k, ok := constIntVal(x.Y); ok && k >= 0 {
				a := bitsOf(x.X, depth+1)
				_, sg := typeBits(x.X.Type())
				if sg && a.hi >= tb {
					return full // arithmetic shift of a possibly negative value
				}
				return bitRange{max(a.lo-int(k), 0), max(a.hi-int(k), 0)}
			}
			return full
		case token.REM:
			if k, ok := constIntVal(x.Y); ok && k > 0 && !signed {
				return bitRange{0, bitLen(k - 1)}
			}
		}
		return full
	case *ssa.Convert:
		a := bitsOf(x.X, depth+1)
		sb, ssg := typeBits(x.X.Type())
		if ssg && a.hi >= sb {
			// possibly negative: sign extension fills every bit above
			return bitRange{a.lo, tb}
		}
		return bitRange{min(a.lo, tb), min(a.hi, tb)}
	case *ssa.ChangeType:
		return bitsOf(x.X, depth+1)
	case *ssa.Phi:
		r := bitRange{tb, 0}
		for _, e := range x.Edges {
			if e == ssa.Value(x) {
				continue
			}
			a := bitsOf(e, depth+3)
			r = bitRange{min(r.lo, a.lo), max(r.hi, a.hi)}
		}
		if r.hi < r.lo {
			return full
		}
		return r
	}
	return full
}

func orTerms(v ssa.Value, out *[]ssa.Value) {
	if bo, ok := v.(*ssa.BinOp); ok && bo.Op == token.OR {
		orTerms(bo.X, out)
		orTerms(bo.Y, out)
		return
	}
	*out = append(*out, v)
}

func (c *Ctx) BitFields(pkgs ...string) []core.Ob {
	var obs []core.Ob
	t := c.TLG()
	for _, fn := range c.Funcs() {
		if !inPkgs(fn, pkgs...) {
			continue
		}
		var roots []*ssa.BinOp
		for _, b := range fn.Blocks {
			for _, in := range b.Instrs {
				or, ok := in.(*ssa.BinOp)
				if !ok || or.Op != token.OR {
					continue
				}
				// a root: not itself an operand of another OR
				isRoot := true
				if refs := or.Referrers(); refs != nil {
					for _, r := range *refs {
						if p, ok := r.(*ssa.BinOp); ok && p.Op == token.OR {
							isRoot = false
						}
					}
				}
				if !isRoot {
					continue
				}
				var terms []ssa.Value
				orTerms(or, &terms)
				shifted := 0
				acc := false
				for _, tm := range terms {
					if r := bitsOf(tm, 0); r.lo > 0 {
						if _, isK := tm.(*ssa.Const); !isK {
							shifted++
						}
					}
					// a loop accumulator (x = x<<7 | b) packs one field per iteration: not a fixed layout
					if hasPhiOperand(tm, 0) {
						acc = true
					}
				}
				if len(terms) < 2 || shifted < 1 || acc {
					continue // flag setting, not packing
				}
				roots = append(roots, or)
			}
		}
		if len(roots) == 0 {
			continue
		}
		k := 0
		t.Probe(fn, func(in ssa.Instruction, eval func(ssa.Value) AV, _ func(string) (AV, bool)) {
			or, ok := in.(*ssa.BinOp)
			if !ok {
				return
			}
			isRoot := false
			for _, r := range roots {
				isRoot = isRoot || r == or
			}
			if !isRoot {
				return
			}
			var terms []ssa.Value
			orTerms(or, &terms)
			k++
			o := core.Ob{Rule: "T-BITFIELD", Key: fmt.Sprintf("%s#pack%d", core.FnName(fn), k), Pos: c.P.Pos(or.Pos()), Func: core.FnName(fn), Armed: true, Status: core.OK,
				Want: "the fields OR-ed into one word occupy pairwise disjoint bit ranges (each field is masked, typed or range-checked to the width of its slot)"}
			rs := make([]bitRange, len(terms))
			var desc []string
			for i, tm := range terms {
				rs[i] = bitsOf(tm, 0)
				// what the interval analysis knows about the field's value at this point
				if all := eval(tm).all(); all != nil && all.Lo != nil && all.Hi != nil && all.Lo.Sign() >= 0 && all.Hi.IsInt64() {
					rs[i].hi = min(rs[i].hi, bitLen(all.Hi.Int64()))
				}
				desc = append(desc, fmt.Sprintf("[%d,%d)", rs[i].lo, rs[i].hi))
			}
			o.Got = strings.Join(desc, " ")
			for i := range rs {
				for j := i + 1; j < len(rs); j++ {
					if rs[i].lo < rs[j].hi && rs[j].lo < rs[i].hi && rs[i].lo < rs[i].hi && rs[j].lo < rs[j].hi {
						o.Status = core.Violated
						o.Got = fmt.Sprintf("fields %d and %d may overlap: bit ranges %s (a value wider than its slot, or negative, spills into the neighbouring field)", i+1, j+1, strings.Join(desc, " "))
					}
				}
			}
			// (the fixpoint visits an instruction several times: the last visit is the stable state)
			for i := range obs {
				if obs[i].Key == o.Key {
					obs[i] = o
					return
				}
			}
			obs = append(obs, o)
		})
	}
	return obs
}

func hasPhiOperand(v ssa.Value, d int) bool {
	if d > 6 {
		return false
	}
	switch x := v.(type) {
	case *ssa.Phi:
		return true
	case *ssa.BinOp:
		return hasPhiOperand(x.X, d+1) || hasPhiOperand(x.Y, d+1)
	case *ssa.Convert:
		return hasPhiOperand(x.X, d+1)
	case *ssa.ChangeType:
		return hasPhiOperand(x.X, d+1)
	}
	return false
}

// ---------------------------------------------------------------------------
// R-COUNT[counting-wrapper]: a type that wraps a reader and keeps a byte
// counter (a struct with a reader-typed field and an integer field that one of
// its methods adds to) updates the counter in EVERY method that consumes from
// the wrapped reader, on every path from the consuming call to a return.

func (c *Ctx) CountingWrappers(pkgs ...string) []core.Ob {
	var obs []core.Ob
	byType := map[*types.Named][]*ssa.Function{}
	for _, fn := range c.Funcs() {
		if !inPkgs(fn, pkgs...) || fn.Signature.Recv() == nil || fn.Parent() != nil {
			continue
		}
		if n, ok := types.Unalias(deref(fn.Signature.Recv().Type())).(*types.Named); ok {
			byType[n] = append(byType[n], fn)
		}
	}
	var named []*types.Named
	for n := range byType {
		named = append(named, n)
	}
	sort.Slice(named, func(i, j int) bool { return named[i].String() < named[j].String() })
	for _, n := range named {
		st, ok := n.Underlying().(*types.Struct)
		if !ok {
			continue
		}
		reader, counter := "", ""
		for i := 0; i < st.NumFields(); i++ {
			f := st.Field(i)
			if it, ok := f.Type().Underlying().(*types.Interface); ok {
				for j := 0; j < it.NumMethods(); j++ {
					if it.Method(j).Name() == "Read" {
						reader = f.Name()
					}
				}
			}
			if b, ok := f.Type().Underlying().(*types.Basic); ok && b.Info()&types.IsInteger != 0 {
				counter = f.Name()
			}
		}
		if reader == "" || counter == "" {
			continue
		}
		type site struct {
			fn   *ssa.Function
			v    *iview
			node *inode
		}
		var sites []site
		counts := false
		for _, fn := range byType[n] {
			if len(fn.Params) == 0 {
				continue
			}
			v := c.inlineView(fn, 0)
			fromReader := func(x ssa.Value) bool {
				for d := 0; d < 4; d++ {
					switch y := x.(type) {
					case *ssa.TypeAssert:
						x = y.X
						continue
					case *ssa.Extract:
						x = y.Tuple
						continue
					case *ssa.ChangeInterface:
						x = y.X
						continue
					case *ssa.MakeInterface:
						x = y.X
						continue
					}
					break
				}
				ld, ok := x.(*ssa.UnOp)
				return ok && ld.Op == token.MUL && rootFieldOfAddr(ld.X, fn.Params[0]) == reader
			}
			for _, nd := range v.nodes {
				switch x := nd.in.(type) {
				case *ssa.Store:
					if rootFieldOfAddr(x.Addr, fn.Params[0]) == counter {
						counts = true
					}
				case *ssa.Call:
					cc := x.Common()
					uses := cc.IsInvoke() && fromReader(cc.Value)
					for _, a := range cc.Args {
						uses = uses || fromReader(a)
					}
					if uses {
						sites = append(sites, site{fn, v, nd})
					}
				}
			}
		}
		if !counts || len(sites) == 0 {
			continue
		}
		per := map[string]int{}
		for _, s := range sites {
			fname := core.FnName(s.fn)
			per[fname]++
			o := core.Ob{Rule: "R-COUNT", Key: fmt.Sprintf("%s#wrapped-read%d", fname, per[fname]), Pos: c.P.Pos(s.node.in.Pos()), Func: fname, Armed: true, Status: core.OK,
				Want: "after consuming from the wrapped reader, the method adds to the counter field " + counter + " on every path to its return"}
			recv := s.fn.Params[0]
			if !s.v.mustFollow(s.node.id, func(m *inode) bool {
				st, ok := m.in.(*ssa.Store)
				return ok && rootFieldOfAddr(st.Addr, recv) == counter
			}) {
				o.Status, o.Got = core.Violated, "a path from this read reaches a return without updating "+counter+": the bytes it consumed are missing from every count derived from the wrapper"
			}
			obs = append(obs, o)
		}
	}
	return obs
}

// ---------------------------------------------------------------------------
// R-ORDER[unpack:assigns-both]: every exit of Packet.UnPack (with the helpers
// it is split into) that may return a nil error has, on every path to it,
// stored the receiver's ID and Data: a packet reported as read never carries
// the previous packet's id or payload.

func (c *Ctx) UnpackAssigns() []core.Ob {
	o := core.Ob{Rule: "R-ORDER", Key: "unpack:success-assigns-id-and-data", Armed: true, Status: core.OK,
		Want: "every exit of Packet.UnPack that may report success is dominated by stores to the packet's ID and Data (a reused Packet never keeps the previous payload)"}
	fn := c.Fn("net/packet.(*Packet).UnPack")
	if fn == nil {
		o.Status, o.Got = core.Violated, "net/packet.(*Packet).UnPack not found"
		return []core.Ob{o}
	}
	o.Pos, o.Func = c.P.Pos(fn.Pos()), core.FnName(fn)
	v := c.inlineView(fn, 2)
	st, _ := deref(fn.Params[0].Type()).Underlying().(*types.Struct)
	if st == nil {
		o.Status, o.Got = core.Violated, "receiver is not a struct"
		return []core.Ob{o}
	}
	stores := map[string][]int{}
	for _, n := range v.nodes {
		if s, ok := n.in.(*ssa.Store); ok {
			if f := v.recvField(n, s.Addr); f != "" && !strings.Contains(f, ".") {
				stores[f] = append(stores[f], n.id)
			}
		}
	}
	// exit frames: the root, and an inlined callee whose result the root (or another exit frame) returns directly
	exitFrame := map[*iframe]bool{}
	for _, n := range v.nodes {
		if n.frame.parent == nil {
			exitFrame[n.frame] = true
		}
	}
	for changed := true; changed; {
		changed = false
		for _, n := range v.nodes {
			ret, ok := n.in.(*ssa.Return)
			if !ok || !exitFrame[n.frame] || len(ret.Results) == 0 {
				continue
			}
			last := directlyReturnedCall(ret)
			if cl, ok := last.(*ssa.Call); ok {
				for _, m := range v.nodes {
					if m.frame.call == ssa.CallInstruction(cl) && m.frame.parent == n.frame && !exitFrame[m.frame] {
						exitFrame[m.frame] = true
						changed = true
					}
				}
			}
		}
	}
	inlinedCall := func(fr *iframe, cl *ssa.Call) bool {
		for _, m := range v.nodes {
			if m.frame.call == ssa.CallInstruction(cl) && m.frame.parent == fr {
				return true
			}
		}
		return false
	}
	nExit := 0
	for _, n := range v.nodes {
		ret, ok := n.in.(*ssa.Return)
		if !ok || len(ret.Results) == 0 || !exitFrame[n.frame] {
			continue
		}
		// success exits: the error operand is nil, or a value not known to be non-nil here
		last := ret.Results[len(ret.Results)-1]
		if !types.Identical(last.Type(), errType) {
			continue
		}
		if cl, ok := directlyReturnedCall(ret).(*ssa.Call); ok && inlinedCall(n.frame, cl) {
			continue // decided inside the callee's frame
		}
		if errKnownNonNil(last, ret.Block()) {
			continue
		}
		if v.idom[n.id] < 0 {
			continue
		}
		nExit++
		for i := 0; i < st.NumFields(); i++ {
			f := st.Field(i).Name()
			dom := false
			for _, s := range stores[f] {
				if v.dominates(s, n.id) {
					dom = true
				}
			}
			// a set of stores may cover the exit jointly (one per branch): then no path avoids all of them
			if !dom && len(stores[f]) > 0 {
				dom = !v.reachAvoiding(v.entry, n.id, stores[f])
			}
			if !dom {
				o.Status = core.Violated
				o.Got = fmt.Sprintf("the success exit at %s is reachable without a store to the packet's %s: the field keeps what the previous read left there", c.P.Pos(ret.Pos()), f)
			}
		}
	}
	if nExit == 0 {
		o.Status, o.Got = core.Violated, "no success exit found in UnPack"
	}
	return []core.Ob{o}
}

// reachAvoiding: a path from a to b exists that passes none of the nodes in avoid.
func (v *iview) reachAvoiding(a, b int, avoid []int) bool {
	blocked := map[int]bool{}
	for _, x := range avoid {
		blocked[x] = true
	}
	if blocked[a] {
		return false
	}
	seen := map[int]bool{a: true}
	work := []int{a}
	for len(work) > 0 {
		x := work[len(work)-1]
		work = work[:len(work)-1]
		if x == b {
			return true
		}
		for _, s := range v.nodes[x].succs {
			if !seen[s] && !blocked[s] {
				seen[s] = true
				work = append(work, s)
			}
		}
	}
	return false
}

// ---------------------------------------------------------------------------
// R-NOALIAS[fresh-element]: inside a decoding loop, the reflect value handed to
// SetMapIndex / reflect.Append as the new element comes from a reflect.New /
// MakeSlice / MakeMap / Zero executed in that same iteration. SetMapIndex and
// Append copy the element shallowly: with one scratch value for all iterations
// the slices, maps and pointers inside the stored elements share memory and the
// next decode overwrites what the previous entry holds.

func (c *Ctx) FreshElements(pkgs ...string) []core.Ob {
	var obs []core.Ob
	for _, fn := range c.Funcs() {
		if !inPkgs(fn, pkgs...) {
			continue
		}
		loops := naturalLoops(fn)
		if len(loops) == 0 {
			continue
		}
		k := 0
		for _, b := range fn.Blocks {
			for _, in := range b.Instrs {
				call, ok := in.(*ssa.Call)
				if !ok {
					continue
				}
				nm := calleeName(call.Common())
				var elem ssa.Value
				switch nm {
				case "reflect.(Value).SetMapIndex":
					if len(call.Common().Args) == 3 {
						elem = call.Common().Args[2]
					}
				case "reflect.Append":
					if len(call.Common().Args) == 2 {
						// variadic: the elements are packed into a slice literal; take the single stored element
						elem = singleVariadic(call.Common().Args[1])
					}
				}
				if elem == nil {
					continue
				}
				// innermost loop containing the call
				var lp *loopInfo
				for i := range loops {
					if loops[i].body[b] && (lp == nil || len(loops[i].body) < len(lp.body)) {
						lp = &loops[i]
					}
				}
				if lp == nil {
					continue
				}
				// origin of the element
				org := elem
				for d := 0; d < 6; d++ {
					oc, ok := org.(*ssa.Call)
					if !ok {
						break
					}
					on := calleeName(oc.Common())
					if on == "reflect.(Value).Elem" || on == "reflect.Indirect" || on == "reflect.(Value).Convert" {
						org = oc.Common().Args[0]
						continue
					}
					break
				}
				oc, ok := org.(*ssa.Call)
				if !ok {
					continue
				}
				switch calleeName(oc.Common()) {
				case "reflect.New", "reflect.MakeSlice", "reflect.MakeMap", "reflect.MakeMapWithSize", "reflect.Zero":
				default:
					continue
				}
				k++
				o := core.Ob{Rule: "R-NOALIAS", Key: fmt.Sprintf("%s#fresh-element%d", core.FnName(fn), k), Pos: c.P.Pos(call.Pos()), Func: core.FnName(fn), Armed: true, Status: core.OK,
					Want: "the element stored into the container in a decoding loop is created in the same iteration (one scratch value for all iterations makes the stored elements share slices, maps and pointers)"}
				if !lp.body[oc.Block()] {
					o.Status = core.Violated
					o.Got = fmt.Sprintf("the element comes from %s at %s, outside the loop: every entry stored by this call is a shallow copy of the same scratch value", calleeName(oc.Common()), c.P.Pos(oc.Pos()))
				}
				obs = append(obs, o)
			}
		}
	}
	return obs
}

// singleVariadic: the one element of the slice literal the compiler builds for f(xs...) with a single value.
func singleVariadic(v ssa.Value) ssa.Value {
	sl, ok := v.(*ssa.Slice)
	if !ok {
		return nil
	}
	al, ok := sl.X.(*ssa.Alloc)
	if !ok || al.Referrers() == nil {
		return nil
	}
	var out ssa.Value
	n := 0
	for _, r := range *al.Referrers() {
		if ia, ok := r.(*ssa.IndexAddr); ok && ia.Referrers() != nil {
			for _, u := range *ia.Referrers() {
				if st, ok := u.(*ssa.Store); ok {
					out = st.Val
					n++
				}
			}
		}
	}
	if n != 1 {
		return nil
	}
	return out
}

// ---------------------------------------------------------------------------
// R-GUARD[sign-check-before-success]: a length decoded from the stream that the
// function tests for a negative value is tested on EVERY path from the place it
// was read to an exit that reports success. (An early `return nil` between the
// read and the test accepts a document with a negative length.)

func (c *Ctx) SignCheckBeforeSuccess(include func(*ssa.Function) bool) []core.Ob {
	var obs []core.Ob
	for _, fn := range c.Funcs() {
		if !include(fn) || len(fn.Blocks) == 0 || !hasErrorResult(fn) {
			continue
		}
		k := 0
		for _, b := range fn.Blocks {
			for _, in := range b.Instrs {
				v, ok := in.(ssa.Value)
				if !ok {
					continue
				}
				// a signed integer obtained from a call that can fail (a read from the stream)
				ex, isEx := v.(*ssa.Extract)
				if !isEx {
					continue
				}
				cl, isCall := ex.Tuple.(*ssa.Call)
				if !isCall || errResultIndex(cl) < 0 || errResultIndex(cl) == ex.Index {
					continue
				}
				bt, isB := ex.Type().Underlying().(*types.Basic)
				if !isB || bt.Info()&types.IsInteger == 0 || bt.Info()&types.IsUnsigned != 0 {
					continue
				}
				if g := cl.Common().StaticCallee(); g == nil || !c.P.InModule(g) {
					continue
				}
				// its sign checks
				var checks []*ssa.BasicBlock
				var walk func(x ssa.Value, d int)
				seen := map[ssa.Value]bool{}
				walk = func(x ssa.Value, d int) {
					if d > 3 || seen[x] || x.Referrers() == nil {
						return
					}
					seen[x] = true
					for _, r := range *x.Referrers() {
						switch y := r.(type) {
						case *ssa.Convert:
							walk(y, d+1)
						case *ssa.ChangeType:
							walk(y, d+1)
						case *ssa.BinOp:
							other := y.Y
							if y.Y == x {
								other = y.X
							}
							kv, isK := constIntVal(other)
							if !isK || !(kv == 0 || kv == -1) {
								continue
							}
							switch y.Op {
							case token.LSS, token.GEQ, token.LEQ, token.GTR:
								if y.Referrers() != nil {
									for _, u := range *y.Referrers() {
										if _, isIf := u.(*ssa.If); isIf {
											checks = append(checks, y.Block())
										}
									}
								}
							}
						}
					}
				}
				walk(ex, 0)
				if len(checks) == 0 {
					continue
				}
				k++
				o := core.Ob{Rule: "R-GUARD", Key: fmt.Sprintf("%s#sign-check%d", core.FnName(fn), k), Pos: c.P.Pos(cl.Pos()), Func: core.FnName(fn), Armed: true, Status: core.OK,
					Want: "the sign test of this decoded length lies on every path from the read to an exit that returns a nil error"}
				blocked := map[*ssa.BasicBlock]bool{}
				for _, cb := range checks {
					blocked[cb] = true
				}
				if !blocked[b] {
					seenB := map[*ssa.BasicBlock]bool{b: true}
					work := []*ssa.BasicBlock{b}
					for len(work) > 0 && o.Status == core.OK {
						x := work[len(work)-1]
						work = work[:len(work)-1]
						if ret, ok := x.Instrs[len(x.Instrs)-1].(*ssa.Return); ok && len(ret.Results) > 0 && x != b {
							if kc, ok := ret.Results[len(ret.Results)-1].(*ssa.Const); ok && kc.IsNil() {
								o.Status = core.Violated
								o.Got = "the success exit at " + c.P.Pos(ret.Pos()) + " is reachable from the read without passing the sign test: a negative length is accepted"
							}
						}
						for _, s := range x.Succs {
							if !seenB[s] && !blocked[s] {
								seenB[s] = true
								work = append(work, s)
							}
						}
					}
				}
				obs = append(obs, o)
			}
		}
	}
	return obs
}

// ---------------------------------------------------------------------------
// T-OPTFLAG: a writer that announces an optional pointer-typed field with a
// boolean written to the stream, and writes the field when that boolean is
// true, computes the boolean as exactly `field != nil`. Any further condition
// means a non-nil value is not written (it decodes as nil: lost); a weaker one
// means a nil pointer is written through.

func (c *Ctx) OptFlags(pkgs ...string) []core.Ob {
	var obs []core.Ob
	for _, fn := range c.Funcs() {
		if !inPkgs(fn, pkgs...) || len(fn.Params) == 0 || fn.Signature.Recv() == nil {
			continue
		}
		recv := fn.Params[0]
		k := 0
		for _, b := range fn.Blocks {
			iff, ok := b.Instrs[len(b.Instrs)-1].(*ssa.If)
			if !ok {
				continue
			}
			flag := iff.Cond
			// the flag as a value of a named boolean type that is also written out
			named := flag
			if _, isNamed := types.Unalias(named.Type()).(*types.Named); !isNamed {
				// `if bool(flag)`: the named value is the operand
				if ct, ok := flag.(*ssa.ChangeType); ok {
					named = ct.X
				}
			}
			if _, isNamed := types.Unalias(named.Type()).(*types.Named); !isNamed {
				continue
			}
			written := false
			if refs := named.Referrers(); refs != nil {
				for _, r := range *refs {
					if cl, ok := r.(*ssa.Call); ok && strings.HasSuffix(calleeName(cl.Common()), ".WriteTo") {
						written = true
					}
					// spilled receiver: the value is stored to a temporary whose address is the receiver
					if st, ok := r.(*ssa.Store); ok && st.Val == named {
						if al, ok := st.Addr.(*ssa.Alloc); ok && al.Referrers() != nil {
							for _, u := range *al.Referrers() {
								if cl, ok := u.(*ssa.Call); ok && strings.HasSuffix(calleeName(cl.Common()), ".WriteTo") {
									written = true
								}
							}
						}
					}
				}
			}
			if !written {
				continue
			}
			// the guarded branch writes a pointer-typed field of the receiver
			var field string
			tb := b.Succs[0]
			for _, in := range tb.Instrs {
				cl, ok := in.(*ssa.Call)
				if !ok || !strings.HasSuffix(calleeName(cl.Common()), ".WriteTo") || len(cl.Common().Args) == 0 {
					continue
				}
				rv := cl.Common().Args[0]
				if cl.Common().IsInvoke() {
					rv = cl.Common().Value
				}
				// the pointer held in the field, or the value it points to (value receiver)
				for d := 0; d < 2; d++ {
					ld, ok := rv.(*ssa.UnOp)
					if !ok || ld.Op != token.MUL {
						break
					}
					if _, isPtr := ld.Type().Underlying().(*types.Pointer); isPtr {
						if _, isFA := ld.X.(*ssa.FieldAddr); isFA {
							field = rootFieldOfAddr(ld.X, recv)
						}
						break
					}
					rv = ld.X
				}
			}
			if field == "" {
				continue
			}
			k++
			o := core.Ob{Rule: "T-OPTFLAG", Key: fmt.Sprintf("%s#%s", core.FnName(fn), field), Pos: c.P.Pos(fn.Pos()), Func: core.FnName(fn), Armed: true, Status: core.OK,
				Want: "the presence flag written before the optional field " + field + " is exactly `" + field + " != nil`"}
			def := named
			for {
				if ct, ok := def.(*ssa.ChangeType); ok {
					def = ct.X
					continue
				}
				if cv, ok := def.(*ssa.Convert); ok {
					def = cv.X
					continue
				}
				break
			}
			okDef := false
			if cmp, ok := def.(*ssa.BinOp); ok && cmp.Op == token.NEQ {
				for _, pr := range [][2]ssa.Value{{cmp.X, cmp.Y}, {cmp.Y, cmp.X}} {
					if ld, ok := pr[0].(*ssa.UnOp); ok && ld.Op == token.MUL && rootFieldOfAddr(ld.X, recv) == field && isNilConst(pr[1]) {
						okDef = true
					}
				}
			}
			if !okDef {
				o.Status, o.Got = core.Violated, "the flag is computed from more (or less) than the nil test of "+field+": a value that is present is not announced, or an absent one is"
			}
			obs = append(obs, o)
		}
		_ = k
	}
	return obs
}

// ---------------------------------------------------------------------------
// R-TRUNC[rune-to-byte]: a rune obtained by ranging over a string (or by
// decoding UTF-8) is not narrowed to a byte unless a comparison on the path has
// bounded it below 256: byte(r) keeps the low 8 bits, so U+0141 is classified
// (quoted, escaped, looked up in a table) as 'A'.

func (c *Ctx) RuneTruncation(pkgs ...string) []core.Ob {
	var obs []core.Ob
	nRanges := 0
	for _, fn := range c.Funcs() {
		if !inPkgs(fn, pkgs...) {
			continue
		}
		k := 0
		for _, b := range fn.Blocks {
			for _, in := range b.Instrs {
				cv, ok := in.(*ssa.Convert)
				if !ok {
					continue
				}
				bt, ok := cv.Type().Underlying().(*types.Basic)
				if !ok || !(bt.Kind() == types.Uint8 || bt.Kind() == types.Int8) {
					continue
				}
				src := cv.X
				if !isRuneSource(src, 0) {
					continue
				}
				k++
				o := core.Ob{Rule: "R-TRUNC", Key: fmt.Sprintf("%s#rune-to-byte%d", core.FnName(fn), k), Pos: c.P.Pos(cv.Pos()), Func: core.FnName(fn), Armed: true, Status: core.OK,
					Want: "a rune from a string is narrowed to a byte only after a comparison bounded it below 256"}
				// a dominating comparison of the rune with a constant <= 256
				bounded := false
				if refs := src.Referrers(); refs != nil {
					for _, r := range *refs {
						cmp, ok := r.(*ssa.BinOp)
						if !ok {
							continue
						}
						other := cmp.Y
						if cmp.Y == src {
							other = cmp.X
						}
						kv, isK := constIntVal(other)
						if !isK || kv > 256 {
							continue
						}
						switch cmp.Op {
						case token.LSS, token.LEQ, token.GTR, token.GEQ:
							if cmp.Block().Dominates(cv.Block()) && cmp.Block() != cv.Block() {
								bounded = true
							}
						}
					}
				}
				if !bounded {
					o.Status, o.Got = core.Violated, "byte(r) of an unbounded rune: every code point above 255 is taken for the byte with its low 8 bits"
				}
				obs = append(obs, o)
			}
			for _, in := range b.Instrs {
				if rg, ok := in.(*ssa.Range); ok {
					if bt, ok := rg.X.Type().Underlying().(*types.Basic); ok && bt.Info()&types.IsString != 0 {
						nRanges++
					}
				}
			}
		}
	}
	obs = append(obs, core.Ob{Rule: "R-TRUNC", Key: "scope", Armed: true, Status: core.OK,
		Want: "loops over the runes of a string were looked at", Got: fmt.Sprintf("%d range-over-string loops in %s", nRanges, strings.Join(pkgs, ","))})
	return obs
}

func isRuneSource(v ssa.Value, d int) bool {
	if d > 4 {
		return false
	}
	switch x := v.(type) {
	case *ssa.Extract:
		if nx, ok := x.Tuple.(*ssa.Next); ok && nx.IsString && x.Index == 2 {
			return true
		}
		if cl, ok := x.Tuple.(*ssa.Call); ok && x.Index == 0 {
			switch calleeName(cl.Common()) {
			case "unicode/utf8.DecodeRuneInString", "unicode/utf8.DecodeRune", "unicode/utf8.DecodeLastRuneInString", "unicode/utf8.DecodeLastRune":
				return true
			}
		}
	case *ssa.Phi:
		for _, e := range x.Edges {
			if e != v && isRuneSource(e, d+1) {
				return true
			}
		}
	case *ssa.ChangeType:
		return isRuneSource(x.X, d+1)
	}
	return false
}

// ---------------------------------------------------------------------------
// R-GUARD[string-index]: s[k] with a constant k on a string whose length the
// function has not compared with anything panics on a short string. Accepted
// without a guard: constant strings, and the argument of a callback handed to
// (*regexp.Regexp).ReplaceAllStringFunc (the match has the pattern's length).

func (c *Ctx) StringIndexGuards(include func(*ssa.Function) bool) []core.Ob {
	var obs []core.Ob
	for _, fn := range c.Funcs() {
		if !include(fn) {
			continue
		}
		k := 0
		for _, b := range fn.Blocks {
			for _, in := range b.Instrs {
				lk, ok := in.(*ssa.Index)
				if !ok {
					continue
				}
				bt, ok := lk.X.Type().Underlying().(*types.Basic)
				if !ok || bt.Info()&types.IsString == 0 {
					continue
				}
				idx, isK := constIntVal(lk.Index)
				if !isK {
					continue
				}
				if _, isConst := lk.X.(*ssa.Const); isConst {
					continue
				}
				k++
				o := core.Ob{Rule: "R-GUARD", Key: fmt.Sprintf("%s#string-index%d", core.FnName(fn), k), Pos: c.P.Pos(lk.Pos()), Func: core.FnName(fn), Armed: true, Status: core.OK,
					Want: fmt.Sprintf("s[%d] is reached only after a comparison on len(s) (or s is a regexp match of known shape)", idx)}
				guarded := false
				// len(s) compared on a dominating block; s may be a slice s[a:b] of a longer string: then the bounds were compared
				bases := []ssa.Value{lk.X}
				if sl, ok := lk.X.(*ssa.Slice); ok {
					bases = append(bases, sl.X)
				}
				for _, base := range bases {
					if base.Referrers() == nil {
						continue
					}
					for _, r := range *base.Referrers() {
						cl, ok := r.(*ssa.Call)
						if !ok {
							continue
						}
						if bi, isB := cl.Common().Value.(*ssa.Builtin); !isB || bi.Name() != "len" || cl.Referrers() == nil {
							continue
						}
						for _, u := range *cl.Referrers() {
							cmp, ok := u.(*ssa.BinOp)
							if !ok {
								continue
							}
							switch cmp.Op {
							case token.LSS, token.LEQ, token.GTR, token.GEQ, token.EQL, token.NEQ:
								if cmp.Block() != lk.Block() && cmp.Block().Dominates(lk.Block()) {
									guarded = true
								}
							}
						}
					}
				}
				// strings.HasPrefix(s, "x") && ... s[k] with k < len(prefix)
				if !guarded && lk.X.Referrers() != nil {
					for _, r := range *lk.X.Referrers() {
						cl, ok := r.(*ssa.Call)
						if !ok {
							continue
						}
						if nm := calleeName(cl.Common()); nm == "strings.HasPrefix" || nm == "strings.HasSuffix" {
							if pc, ok := cl.Common().Args[1].(*ssa.Const); ok && pc.Value != nil && int64(len(constant.StringVal(pc.Value))) > idx && cl.Block().Dominates(lk.Block()) {
								guarded = true
							}
						}
					}
				}
				if !guarded {
					if p, isParam := lk.X.(*ssa.Parameter); isParam && fn.Parent() != nil && len(fn.Params) == 1 && p == fn.Params[0] && closureGoesTo(fn, "regexp.(Regexp).ReplaceAllStringFunc") {
						guarded = true
						o.Got = "the callback's argument is a match of the pattern"
					}
				}
				if !guarded {
					o.Status, o.Got = core.Violated, "no comparison on the string's length dominates this index: an empty or short string panics here"
				}
				obs = append(obs, o)
			}
		}
	}
	return obs
}

// closureGoesTo: the closure fn is passed (as a MakeClosure or function value) to a call of the named function in its parent.
func closureGoesTo(fn *ssa.Function, callee string) bool {
	par := fn.Parent()
	if par == nil {
		return false
	}
	for _, b := range par.Blocks {
		for _, in := range b.Instrs {
			cl, ok := in.(*ssa.Call)
			if !ok || calleeName(cl.Common()) != callee {
				continue
			}
			for _, a := range cl.Common().Args {
				if mc, ok := a.(*ssa.MakeClosure); ok && mc.Fn == ssa.Value(fn) {
					return true
				}
				if f, ok := a.(*ssa.Function); ok && f == fn {
					return true
				}
			}
		}
	}
	return false
}

// ---------------------------------------------------------------------------
// T-FIELDCOVER: a Marshal* method of a struct type that, on some path, encodes
// a single field of the receiver instead of the whole value (a "short form")
// has looked at every other field of the struct on the way (in its own
// conditions or in the predicate helpers it calls): a field that is not tested
// is silently dropped whenever the short form is chosen.

func (c *Ctx) ShortFormCoversFields(pkgs ...string) []core.Ob {
	var obs []core.Ob
	nMeth := 0
	for _, pk := range c.P.Pkgs {
		rel := core.Rel(pk.PkgPath)
		in := false
		for _, p := range pkgs {
			in = in || rel == p
		}
		if !in {
			continue
		}
		info := pk.TypesInfo
		for _, f := range pk.Syntax {
			for _, d := range f.Decls {
				fd, ok := d.(*ast.FuncDecl)
				if !ok || fd.Body == nil || fd.Recv == nil || len(fd.Recv.List) != 1 || len(fd.Recv.List[0].Names) != 1 {
					continue
				}
				if !strings.HasPrefix(fd.Name.Name, "Marshal") && fd.Name.Name != "WriteTo" {
					continue
				}
				robj := info.Defs[fd.Recv.List[0].Names[0]]
				if robj == nil {
					continue
				}
				named, _ := types.Unalias(deref(robj.Type())).(*types.Named)
				if named == nil {
					continue
				}
				st, ok := named.Underlying().(*types.Struct)
				if !ok || st.NumFields() < 3 {
					continue
				}
				nMeth++
				// short forms: an encoder call whose value argument is one field of the receiver
				type short struct {
					field *types.Var
					pos   token.Pos
				}
				var shorts []short
				ast.Inspect(fd.Body, func(n ast.Node) bool {
					call, ok := n.(*ast.CallExpr)
					if !ok || len(call.Args) == 0 {
						return true
					}
					fo := calleeObj(info, call)
					if fo == nil || !(fo.Name() == "Marshal" || fo.Name() == "Encode" || fo.Name() == "MarshalIndent") {
						return true
					}
					arg := ast.Unparen(call.Args[0])
					if u, ok := arg.(*ast.UnaryExpr); ok && u.Op == token.AND {
						arg = ast.Unparen(u.X)
					}
					sel, ok := arg.(*ast.SelectorExpr)
					if !ok {
						return true
					}
					if id, ok := ast.Unparen(sel.X).(*ast.Ident); !ok || info.Uses[id] != robj {
						return true
					}
					if fv, ok := info.Uses[sel.Sel].(*types.Var); ok && fv.IsField() {
						shorts = append(shorts, short{fv, call.Pos()})
					}
					return true
				})
				if len(shorts) == 0 {
					continue
				}
				// fields of the struct mentioned in the method and in the helpers it calls
				seen := map[*types.Var]bool{}
				for _, hb := range c.withHelpers(pk, fd.Body, fd, 2) {
					hinfo := hb.pk.TypesInfo
					ast.Inspect(hb.node, func(n ast.Node) bool {
						sel, ok := n.(*ast.SelectorExpr)
						if !ok {
							return true
						}
						if s, ok := hinfo.Selections[sel]; ok && s.Kind() == types.FieldVal {
							if rn, _ := types.Unalias(deref(s.Recv())).(*types.Named); rn != nil && rn.Obj() == named.Obj() {
								if fv, ok := s.Obj().(*types.Var); ok {
									seen[fv] = true
								}
							}
						}
						return true
					})
				}
				for _, sh := range shorts {
					o := core.Ob{Rule: "T-FIELDCOVER", Key: fmt.Sprintf("%s.%s.%s#short-form:%s", rel, named.Obj().Name(), fd.Name.Name, sh.field.Name()), Pos: c.P.Pos(sh.pos), Func: rel + "." + named.Obj().Name() + "." + fd.Name.Name, Armed: true, Status: core.OK,
						Want: "before a value is encoded as its field " + sh.field.Name() + " alone, every other field of " + named.Obj().Name() + " has been looked at"}
					var missing []string
					for i := 0; i < st.NumFields(); i++ {
						fv := st.Field(i)
						if fv != sh.field && !seen[fv] {
							missing = append(missing, fv.Name())
						}
					}
					if len(missing) > 0 {
						o.Status, o.Got = core.Violated, "never looked at: "+strings.Join(missing, ", ")+" - a value with only these set is encoded as the bare "+sh.field.Name()+" and they are lost"
					}
					obs = append(obs, o)
				}
			}
		}
	}
	obs = append(obs, core.Ob{Rule: "T-FIELDCOVER", Key: "scope", Armed: true, Status: core.OK, Want: "Marshal*/WriteTo methods of struct types were looked at for short forms", Got: fmt.Sprintf("%d methods in %s", nMeth, strings.Join(pkgs, ","))})
	return obs
}

// errKnownNonNil: the error value is freshly built, or the block is entered only over the
// non-nil edge of a test of it.
func errKnownNonNil(e ssa.Value, b *ssa.BasicBlock) bool {
	switch x := e.(type) {
	case *ssa.Const:
		return false
	case *ssa.MakeInterface:
		return true
	case *ssa.Call:
		switch calleeName(x.Common()) {
		case "errors.New", "fmt.Errorf":
			return true
		}
	case *ssa.UnOp:
		if g, ok := x.X.(*ssa.Global); ok && x.Op == token.MUL && strings.HasPrefix(g.Name(), "Err") {
			return true
		}
		// a result slot (functions with a defer spill their results): what was stored last in this block
		if al, ok := x.X.(*ssa.Alloc); ok && x.Op == token.MUL {
			var last ssa.Value
			for _, in := range x.Block().Instrs {
				if in == ssa.Instruction(x) {
					break
				}
				if st, ok := in.(*ssa.Store); ok && st.Addr == ssa.Value(al) {
					last = st.Val
				}
			}
			if last != nil && last != e {
				return errKnownNonNil(last, b)
			}
		}
	}
	for d := b; d != nil; d = d.Idom() {
		if len(d.Preds) != 1 {
			continue
		}
		p := d.Preds[0]
		iff, ok := p.Instrs[len(p.Instrs)-1].(*ssa.If)
		if !ok {
			continue
		}
		cmp, ok := iff.Cond.(*ssa.BinOp)
		if !ok || !((cmp.X == e && isNilConst(cmp.Y)) || (cmp.Y == e && isNilConst(cmp.X))) {
			continue
		}
		if (cmp.Op == token.NEQ && p.Succs[0] == d) || (cmp.Op == token.EQL && p.Succs[1] == d) {
			return true
		}
	}
	return false
}

// directlyReturnedCall: `return f(...)`: the call whose results are exactly what the return hands back (nil otherwise).
func directlyReturnedCall(ret *ssa.Return) ssa.Value {
	if len(ret.Results) == 1 {
		if cl, ok := ret.Results[0].(*ssa.Call); ok {
			return cl
		}
		return nil
	}
	var call *ssa.Call
	for i, r := range ret.Results {
		ex, ok := r.(*ssa.Extract)
		if !ok || ex.Index != i {
			return nil
		}
		cl, ok := ex.Tuple.(*ssa.Call)
		if !ok || (call != nil && cl != call) {
			return nil
		}
		call = cl
	}
	if call == nil || call.Block() != ret.Block() {
		return nil
	}
	return call
}

// ---------------------------------------------------------------------------
// R-ORDER[ripple-carry]: a byte-wise increment that propagates a carry
// (x[i]++ under a carry flag, the flag recomputed from x[i]) computes the flag
// as "the byte was 0xff before the increment" or "the byte is 0 after it".
// Reading the byte on the other side of the increment store with the same
// constant stops (or continues) the carry one byte off.

func sameElem(a, b ssa.Value) bool {
	x, ok1 := a.(*ssa.IndexAddr)
	y, ok2 := b.(*ssa.IndexAddr)
	return ok1 && ok2 && x.X == y.X && x.Index == y.Index
}

func (c *Ctx) RippleCarry(pkgs ...string) []core.Ob {
	var obs []core.Ob
	for _, fn := range c.Funcs() {
		if !inPkgs(fn, pkgs...) {
			continue
		}
		k := 0
		for _, b := range fn.Blocks {
			// the increment store: x[i] = x[i] + 1
			incIdx := -1
			var addr ssa.Value
			for i, in := range b.Instrs {
				st, ok := in.(*ssa.Store)
				if !ok {
					continue
				}
				add, ok := st.Val.(*ssa.BinOp)
				if !ok || add.Op != token.ADD {
					continue
				}
				one, isK := constIntVal(add.Y)
				ld, isLd := add.X.(*ssa.UnOp)
				if !isK || one != 1 || !isLd || ld.Op != token.MUL || !sameElem(ld.X, st.Addr) {
					continue
				}
				if bt, ok := add.Type().Underlying().(*types.Basic); !ok || bt.Kind() != types.Uint8 {
					continue
				}
				incIdx, addr = i, st.Addr
			}
			if incIdx < 0 {
				continue
			}
			// the flag: a comparison of the same element with a constant in the same block, feeding a phi
			for i, in := range b.Instrs {
				cmp, ok := in.(*ssa.BinOp)
				if !ok || cmp.Op != token.EQL {
					continue
				}
				ld, isLd := cmp.X.(*ssa.UnOp)
				kv, isK := constIntVal(cmp.Y)
				if !isLd || !isK || ld.Op != token.MUL || !sameElem(ld.X, addr) {
					continue
				}
				feedsPhi := false
				if refs := cmp.Referrers(); refs != nil {
					for _, r := range *refs {
						if _, ok := r.(*ssa.Phi); ok {
							feedsPhi = true
						}
					}
				}
				if !feedsPhi {
					continue
				}
				// where the byte was read relative to the increment
				ldIdx := -1
				for j, x := range b.Instrs {
					if x == ssa.Instruction(ld) {
						ldIdx = j
					}
				}
				_ = i
				k++
				o := core.Ob{Rule: "R-ORDER", Key: fmt.Sprintf("ripple-carry:%s#%d", core.FnName(fn), k), Pos: c.P.Pos(cmp.Pos()), Func: core.FnName(fn), Armed: true, Status: core.OK,
					Want: "the carry out of a byte is `byte == 0xff` read before the increment, or `byte == 0` read after it"}
				before := ldIdx >= 0 && ldIdx < incIdx
				if (before && kv != 0xff) || (!before && kv != 0) {
					o.Status = core.Violated
					side := "after"
					if before {
						side = "before"
					}
					o.Got = fmt.Sprintf("the byte is read %s the increment and compared with %#x: the carry is propagated from the wrong bytes", side, kv)
				}
				obs = append(obs, o)
			}
		}
	}
	return obs
}

// ---------------------------------------------------------------------------
// R-GUARD[block-slices]: in the CFB8 stream, a slice expression on a parameter
// Q whose bound is the cipher's block size (Q[:bs], Q[bs:]) is covered by a
// length gate: a dominating branch taken only when len(P) exceeds an expression
// over the block size, where P is Q itself or the function has refused
// len(Q) < len(P) before (so len(Q) >= len(P) > bs). A gate on a different
// slice says nothing about Q.

func (c *Ctx) BlockSlices(pkg string) []core.Ob {
	var obs []core.Ob
	for _, fn := range c.Funcs() {
		if !inPkgs(fn, pkg) || len(fn.Params) < 2 || fn.Signature.Recv() == nil {
			continue
		}
		recv := fn.Params[0]
		isBS := func(v ssa.Value) bool {
			v = stripConv(v)
			ld, ok := v.(*ssa.UnOp)
			if !ok || ld.Op != token.MUL {
				return false
			}
			f := rootFieldOfAddr(ld.X, recv)
			if f == "" || strings.Contains(f, ".") {
				return false
			}
			bt, ok := ld.Type().Underlying().(*types.Basic)
			return ok && bt.Info()&types.IsInteger != 0
		}
		var mentionsBS func(v ssa.Value, d int) bool
		mentionsBS = func(v ssa.Value, d int) bool {
			if d > 4 {
				return false
			}
			if isBS(v) {
				return true
			}
			if bo, ok := stripConv(v).(*ssa.BinOp); ok {
				return mentionsBS(bo.X, d+1) || mentionsBS(bo.Y, d+1)
			}
			return false
		}
		lenOf := func(v ssa.Value) *ssa.Parameter {
			cl, ok := stripConv(v).(*ssa.Call)
			if !ok {
				return nil
			}
			if bi, isB := cl.Common().Value.(*ssa.Builtin); !isB || bi.Name() != "len" {
				return nil
			}
			p, _ := cl.Common().Args[0].(*ssa.Parameter)
			return p
		}
		// gates: block G ends in If(len(P) > E(bs)) -> true successor
		type gate struct {
			p    *ssa.Parameter
			succ *ssa.BasicBlock
		}
		var gates []gate
		// refusals: If(len(Q) < len(P)) whose true side panics: afterwards len(Q) >= len(P)
		type rel struct{ q, p *ssa.Parameter }
		var geq []struct {
			rel
			succ *ssa.BasicBlock
		}
		for _, b := range fn.Blocks {
			iff, ok := b.Instrs[len(b.Instrs)-1].(*ssa.If)
			if !ok {
				continue
			}
			cmp, ok := iff.Cond.(*ssa.BinOp)
			if !ok {
				continue
			}
			x, y, op := cmp.X, cmp.Y, cmp.Op
			if op == token.LSS || op == token.LEQ {
				x, y = y, x
				if op == token.LSS {
					op = token.GTR
				} else {
					op = token.GEQ
				}
			}
			// now: x > y  or x >= y on the true edge
			if op == token.GTR || op == token.GEQ {
				if p := lenOf(x); p != nil && mentionsBS(y, 0) {
					gates = append(gates, gate{p, b.Succs[0]})
				}
				// len(P) > len(Q) true -> panic: false edge has len(Q) >= len(P)
				if p, q := lenOf(x), lenOf(y); p != nil && q != nil && op == token.GTR {
					if _, isPanic := b.Succs[0].Instrs[len(b.Succs[0].Instrs)-1].(*ssa.Panic); isPanic {
						geq = append(geq, struct {
							rel
							succ *ssa.BasicBlock
						}{rel{q, p}, b.Succs[1]})
					}
				}
			}
		}
		k := 0
		for _, b := range fn.Blocks {
			for _, in := range b.Instrs {
				sl, ok := in.(*ssa.Slice)
				if !ok {
					continue
				}
				q, isParam := sl.X.(*ssa.Parameter)
				if !isParam || q == recv {
					continue
				}
				if !((sl.Low != nil && isBS(sl.Low)) || (sl.High != nil && isBS(sl.High))) {
					continue
				}
				k++
				o := core.Ob{Rule: "R-GUARD", Key: fmt.Sprintf("%s#block-slice%d", core.FnName(fn), k), Pos: c.P.Pos(sl.Pos()), Func: core.FnName(fn), Armed: true, Status: core.OK,
					Want: "slicing " + q.Name() + " by the block size is covered by a gate on len(" + q.Name() + ") (or on a slice " + q.Name() + " was checked to be at least as long as)"}
				covered := false
				for _, g := range gates {
					if !(g.succ == b || g.succ.Dominates(b)) || len(g.succ.Preds) != 1 {
						continue
					}
					if g.p == q {
						covered = true
					}
					for _, r := range geq {
						if r.q == q && r.p == g.p && (r.succ == b || r.succ.Dominates(b)) {
							covered = true
						}
					}
				}
				if !covered {
					o.Status, o.Got = core.Violated, "no dominating gate bounds len("+q.Name()+") from below by the block size: a short "+q.Name()+" makes this slice expression panic (or the fast path run on too little input)"
				}
				obs = append(obs, o)
			}
		}
	}
	return obs
}

// ---------------------------------------------------------------------------
// T-DISPATCH[clause-consistent]: inside the clause of a switch over tag
// constants, a comparison of the switched variable with a tag constant that
// the clause does not list can never be true (or never false): the code holds
// two contradictory beliefs about the tag, one of them is a slip (TagInt for
// TagIntArray).

func (c *Ctx) ClauseConsistency(pkgs ...string) []core.Ob {
	var obs []core.Ob
	for _, ts := range c.tagSwitches(pkgs...) {
		id, ok := ast.Unparen(ts.sw.Tag).(*ast.Ident)
		if !ok {
			continue
		}
		info := ts.pkg.TypesInfo
		tagObj := info.Uses[id]
		if tagObj == nil {
			continue
		}
		seenCC := map[*ast.CaseClause]bool{}
		var vals []int64
		for v := range ts.cases {
			vals = append(vals, v)
		}
		sort.Slice(vals, func(i, j int) bool { return vals[i] < vals[j] })
		for _, v := range vals {
			cc := ts.cases[v]
			if seenCC[cc] {
				continue
			}
			seenCC[cc] = true
			listed := map[int64]bool{}
			for _, e := range cc.List {
				if _, tv, ok := tagConst(info, e); ok {
					listed[tv] = true
				}
			}
			// the variable must not be reassigned inside the clause
			reassigned := false
			ast.Inspect(cc, func(n ast.Node) bool {
				if as, ok := n.(*ast.AssignStmt); ok {
					for _, l := range as.Lhs {
						if li, ok := ast.Unparen(l).(*ast.Ident); ok && (info.Uses[li] == tagObj || info.Defs[li] == tagObj) {
							reassigned = true
						}
					}
				}
				return true
			})
			if reassigned {
				continue
			}
			k := 0
			check := func(e ast.Expr, pos token.Pos) {
				name, tv, ok := tagConst(info, e)
				if !ok {
					return
				}
				k++
				o := core.Ob{Rule: "T-DISPATCH", Key: fmt.Sprintf("%s#switch%d:%s:inner-compare%d", ts.fn, ts.ordinal, ts.names[v], k), Pos: c.P.Pos(pos), Func: ts.fn, Armed: true, Status: core.OK,
					Want: "inside the clause for " + clauseNames(ts, cc) + " the tag is only compared with the tags that clause lists"}
				if !listed[tv] {
					o.Status, o.Got = core.Violated, "compared with "+name+", which this clause never sees: the comparison has a fixed outcome"
				}
				obs = append(obs, o)
			}
			for _, s := range cc.Body {
				ast.Inspect(s, func(n ast.Node) bool {
					switch x := n.(type) {
					case *ast.FuncLit:
						return false
					case *ast.BinaryExpr:
						if x.Op != token.EQL && x.Op != token.NEQ {
							return true
						}
						for _, pr := range [][2]ast.Expr{{x.X, x.Y}, {x.Y, x.X}} {
							if li, ok := ast.Unparen(pr[0]).(*ast.Ident); ok && info.Uses[li] == tagObj {
								check(pr[1], x.Pos())
							}
						}
					case *ast.SwitchStmt:
						if x.Tag != nil {
							if li, ok := ast.Unparen(x.Tag).(*ast.Ident); ok && info.Uses[li] == tagObj {
								for _, cs := range x.Body.List {
									for _, e := range cs.(*ast.CaseClause).List {
										check(e, e.Pos())
									}
								}
							}
						}
					}
					return true
				})
			}
		}
	}
	return obs
}

func clauseNames(ts *tagSwitch, cc *ast.CaseClause) string {
	var ns []string
	for v, x := range ts.cases {
		if x == cc {
			ns = append(ns, ts.names[v])
		}
	}
	sort.Strings(ns)
	return strings.Join(ns, "/")
}

// ---------------------------------------------------------------------------
// R-GUARD[len-minus-k]: an index or slice bound of the form L-k (k >= 1), where
// L is len(x) or x.Len(), is reached only over a branch that compared a length
// of the same x with something (L > 0, L >= k, L != 0 ...): with L == 0 the
// bound is negative and the expression panics.

func lengthOf(v ssa.Value) (obj ssa.Value, ok bool) {
	cl, isCall := stripConv(v).(*ssa.Call)
	if !isCall {
		return nil, false
	}
	if bi, isB := cl.Common().Value.(*ssa.Builtin); isB {
		if bi.Name() == "len" && len(cl.Common().Args) == 1 {
			return cl.Common().Args[0], true
		}
		return nil, false
	}
	if g := cl.Common().StaticCallee(); g != nil && g.Name() == "Len" && len(cl.Common().Args) == 1 {
		return cl.Common().Args[0], true
	}
	if cl.Common().IsInvoke() && cl.Common().Method.Name() == "Len" {
		return cl.Common().Value, true
	}
	return nil, false
}

func (c *Ctx) LenMinusGuards(include func(*ssa.Function) bool) []core.Ob {
	var obs []core.Ob
	for _, fn := range c.Funcs() {
		if !include(fn) {
			continue
		}
		k := 0
		for _, b := range fn.Blocks {
			for _, in := range b.Instrs {
				var bounds []ssa.Value
				switch x := in.(type) {
				case *ssa.Slice:
					bounds = []ssa.Value{x.Low, x.High}
				case *ssa.Index:
					bounds = []ssa.Value{x.Index}
				case *ssa.IndexAddr:
					bounds = []ssa.Value{x.Index}
				}
				for _, bd := range bounds {
					if bd == nil {
						continue
					}
					sub, ok := stripConv(bd).(*ssa.BinOp)
					if !ok || sub.Op != token.SUB {
						continue
					}
					kv, isK := constIntVal(sub.Y)
					obj, isLen := lengthOf(sub.X)
					if !isK || kv < 1 || !isLen {
						continue
					}
					k++
					o := core.Ob{Rule: "R-GUARD", Key: fmt.Sprintf("%s#len-minus%d", core.FnName(fn), k), Pos: c.P.Pos(in.Pos()), Func: core.FnName(fn), Armed: true, Status: core.OK,
						Want: fmt.Sprintf("the bound len-%d is used only after a comparison on the length of the same object", kv)}
					guarded := false
					// loops `for i := len(x)-1; i >= 0; i--` index with the counter, not with len-k: not this pattern.
					for _, g := range fn.Blocks {
						iff, ok := g.Instrs[len(g.Instrs)-1].(*ssa.If)
						if !ok || g == b || !g.Dominates(b) {
							continue
						}
						cmp, ok := iff.Cond.(*ssa.BinOp)
						if !ok {
							continue
						}
						for _, op := range []ssa.Value{cmp.X, cmp.Y} {
							if o2, ok := lengthOf(op); ok && sameObject(o2, obj) {
								// one side of the branch must lead here exclusively
								for _, s := range g.Succs {
									if (s == b || s.Dominates(b)) && len(s.Preds) == 1 {
										guarded = true
									}
								}
							}
						}
					}
					if !guarded {
						o.Status, o.Got = core.Violated, "no branch on the length of the same object dominates this use: with an empty one the bound is negative"
					}
					obs = append(obs, o)
				}
			}
		}
	}
	return obs
}

// sameObject: both values denote the same slice/string/receiver (the same SSA value, or loads of the same address).
func sameObject(a, b ssa.Value) bool {
	if a == b {
		return true
	}
	la, ok1 := a.(*ssa.UnOp)
	lb, ok2 := b.(*ssa.UnOp)
	if ok1 && ok2 && la.Op == token.MUL && lb.Op == token.MUL {
		return addrKey(la.X) == addrKey(lb.X)
	}
	return false
}
