package rules

import (
	"fmt"
	"go/types"
	"math/big"
)

// Iv is a closed integer interval; a nil bound is infinite. Iv values are
// immutable (operations return new intervals).
type Iv struct {
	Lo, Hi *big.Int
}

func bi(x int64) *big.Int { return big.NewInt(x) }

func ivConst(x *big.Int) *Iv { return &Iv{new(big.Int).Set(x), new(big.Int).Set(x)} }
func ivOf(lo, hi int64) *Iv  { return &Iv{bi(lo), bi(hi)} }
func ivTop() *Iv             { return &Iv{} }

func (a *Iv) String() string {
	if a == nil {
		return "⊥"
	}
	lo, hi := "-inf", "+inf"
	if a.Lo != nil {
		lo = a.Lo.String()
	}
	if a.Hi != nil {
		hi = a.Hi.String()
	}
	return "[" + lo + "," + hi + "]"
}

func (a *Iv) Eq(b *Iv) bool {
	if a == nil || b == nil {
		return a == b
	}
	return cmpB(a.Lo, b.Lo, -1) == 0 && cmpB(a.Hi, b.Hi, +1) == 0
}

// cmpB compares bounds; nil means -inf (side<0) or +inf (side>0).
func cmpB(x, y *big.Int, side int) int {
	switch {
	case x == nil && y == nil:
		return 0
	case x == nil:
		return side
	case y == nil:
		return -side
	}
	return x.Cmp(y)
}

func minLo(x, y *big.Int) *big.Int {
	if x == nil || y == nil {
		return nil
	}
	if x.Cmp(y) <= 0 {
		return x
	}
	return y
}

func maxHi(x, y *big.Int) *big.Int {
	if x == nil || y == nil {
		return nil
	}
	if x.Cmp(y) >= 0 {
		return x
	}
	return y
}

func maxLo(x, y *big.Int) *big.Int {
	if x == nil {
		return y
	}
	if y == nil {
		return x
	}
	if x.Cmp(y) >= 0 {
		return x
	}
	return y
}

func minHi(x, y *big.Int) *big.Int {
	if x == nil {
		return y
	}
	if y == nil {
		return x
	}
	if x.Cmp(y) <= 0 {
		return x
	}
	return y
}

// Hull: smallest interval containing both (nil = bottom).
func hull(a, b *Iv) *Iv {
	if a == nil {
		return b
	}
	if b == nil {
		return a
	}
	return &Iv{minLo(a.Lo, b.Lo), maxHi(a.Hi, b.Hi)}
}

// meet: intersection; nil if empty.
func meet(a, b *Iv) *Iv {
	if a == nil || b == nil {
		return nil
	}
	r := &Iv{maxLo(a.Lo, b.Lo), minHi(a.Hi, b.Hi)}
	if r.Lo != nil && r.Hi != nil && r.Lo.Cmp(r.Hi) > 0 {
		return nil
	}
	return r
}

func (a *Iv) contains(x *big.Int) bool {
	if a == nil {
		return false
	}
	if a.Lo != nil && a.Lo.Cmp(x) > 0 {
		return false
	}
	if a.Hi != nil && a.Hi.Cmp(x) < 0 {
		return false
	}
	return true
}

// subset: a ⊆ b
func (a *Iv) subset(b *Iv) bool {
	if a == nil {
		return true
	}
	if b == nil {
		return false
	}
	return cmpB(a.Lo, b.Lo, -1) >= 0 && cmpB(a.Hi, b.Hi, +1) <= 0
}

func (a *Iv) isConst() (*big.Int, bool) {
	if a != nil && a.Lo != nil && a.Hi != nil && a.Lo.Cmp(a.Hi) == 0 {
		return a.Lo, true
	}
	return nil, false
}

func addB(x, y *big.Int) *big.Int {
	if x == nil || y == nil {
		return nil
	}
	return new(big.Int).Add(x, y)
}

func ivAdd(a, b *Iv) *Iv {
	if a == nil || b == nil {
		return nil
	}
	return &Iv{addB(a.Lo, b.Lo), addB(a.Hi, b.Hi)}
}

func ivNeg(a *Iv) *Iv {
	if a == nil {
		return nil
	}
	r := &Iv{}
	if a.Hi != nil {
		r.Lo = new(big.Int).Neg(a.Hi)
	}
	if a.Lo != nil {
		r.Hi = new(big.Int).Neg(a.Lo)
	}
	return r
}

func ivSub(a, b *Iv) *Iv { return ivAdd(a, ivNeg(b)) }

func ivMul(a, b *Iv) *Iv {
	if a == nil || b == nil {
		return nil
	}
	if a.Lo == nil || a.Hi == nil || b.Lo == nil || b.Hi == nil {
		// one side unbounded: keep sign information when both are non-negative
		if a.Lo != nil && b.Lo != nil && a.Lo.Sign() >= 0 && b.Lo.Sign() >= 0 {
			return &Iv{Lo: new(big.Int).Mul(a.Lo, b.Lo)}
		}
		return ivTop()
	}
	c := []*big.Int{
		new(big.Int).Mul(a.Lo, b.Lo), new(big.Int).Mul(a.Lo, b.Hi),
		new(big.Int).Mul(a.Hi, b.Lo), new(big.Int).Mul(a.Hi, b.Hi),
	}
	lo, hi := c[0], c[0]
	for _, x := range c[1:] {
		if x.Cmp(lo) < 0 {
			lo = x
		}
		if x.Cmp(hi) > 0 {
			hi = x
		}
	}
	return &Iv{lo, hi}
}

// ivQuo: Go's truncated division; the divisor interval must not contain 0 for a
// precise answer (else top).
func ivQuo(a, b *Iv) *Iv {
	if a == nil || b == nil {
		return nil
	}
	if b.contains(bi(0)) || b.Lo == nil || b.Hi == nil {
		// |a / b| <= |a| whenever b != 0
		if a.Lo != nil && a.Hi != nil {
			m := new(big.Int).Abs(a.Lo)
			if h := new(big.Int).Abs(a.Hi); h.Cmp(m) > 0 {
				m = h
			}
			if a.Lo.Sign() >= 0 && b.Lo != nil && b.Lo.Sign() >= 0 {
				return &Iv{bi(0), m}
			}
			return &Iv{new(big.Int).Neg(m), m}
		}
		if a.Lo != nil && a.Lo.Sign() >= 0 && b.Lo != nil && b.Lo.Sign() >= 0 {
			return &Iv{Lo: bi(0)}
		}
		return ivTop()
	}
	if a.Lo == nil || a.Hi == nil {
		if a.Lo != nil && a.Lo.Sign() >= 0 && b.Lo.Sign() > 0 {
			return &Iv{Lo: bi(0)}
		}
		return ivTop()
	}
	c := []*big.Int{
		new(big.Int).Quo(a.Lo, b.Lo), new(big.Int).Quo(a.Lo, b.Hi),
		new(big.Int).Quo(a.Hi, b.Lo), new(big.Int).Quo(a.Hi, b.Hi),
	}
	lo, hi := c[0], c[0]
	for _, x := range c[1:] {
		if x.Cmp(lo) < 0 {
			lo = x
		}
		if x.Cmp(hi) > 0 {
			hi = x
		}
	}
	return &Iv{lo, hi}
}

// ivRem: a % b (sign follows a); |result| < |b|.
func ivRem(a, b *Iv) *Iv {
	if a == nil || b == nil {
		return nil
	}
	if b.Lo == nil || b.Hi == nil {
		if a.Lo != nil && a.Lo.Sign() >= 0 {
			return &Iv{bi(0), a.Hi}
		}
		return ivTop()
	}
	m := new(big.Int).Abs(b.Lo)
	if h := new(big.Int).Abs(b.Hi); h.Cmp(m) > 0 {
		m = h
	}
	m = new(big.Int).Sub(m, bi(1))
	if m.Sign() < 0 {
		m = bi(0)
	}
	if a.Lo != nil && a.Lo.Sign() >= 0 {
		return &Iv{bi(0), minHi(m, a.Hi)}
	}
	return &Iv{new(big.Int).Neg(m), m}
}

// ivShl: a << k for constant-range k (non-negative).
func ivShl(a, k *Iv) *Iv {
	if a == nil || k == nil {
		return nil
	}
	if k.Lo == nil || k.Hi == nil || k.Lo.Sign() < 0 || k.Hi.Cmp(bi(128)) > 0 {
		return ivTop()
	}
	p1 := new(big.Int).Lsh(bi(1), uint(k.Lo.Int64()))
	p2 := new(big.Int).Lsh(bi(1), uint(k.Hi.Int64()))
	return hull(ivMul(a, &Iv{p1, p1}), ivMul(a, &Iv{p2, p2}))
}

// ivShr: arithmetic shift right by k.
func ivShr(a, k *Iv) *Iv {
	if a == nil || k == nil {
		return nil
	}
	if k.Lo == nil || k.Lo.Sign() < 0 {
		return ivTop()
	}
	sh := func(x *big.Int, n *big.Int) *big.Int {
		if x == nil {
			return nil
		}
		if n == nil || n.Cmp(bi(200)) > 0 {
			if x.Sign() < 0 {
				return bi(-1)
			}
			return bi(0)
		}
		return new(big.Int).Rsh(x, uint(n.Int64())) // big.Int Rsh is arithmetic (floor)
	}
	cands := []*Iv{}
	for _, n := range []*big.Int{k.Lo, k.Hi} {
		cands = append(cands, &Iv{sh(a.Lo, n), sh(a.Hi, n)})
	}
	return hull(cands[0], cands[1])
}

// ivAnd: x & y. Sound for the cases used: if either side is non-negative the
// result is within [0, that side's hi]; otherwise unknown.
func ivAnd(a, b *Iv) *Iv {
	if a == nil || b == nil {
		return nil
	}
	an := a.Lo != nil && a.Lo.Sign() >= 0
	bn := b.Lo != nil && b.Lo.Sign() >= 0
	switch {
	case an && bn:
		return &Iv{bi(0), minHi(a.Hi, b.Hi)}
	case an:
		return &Iv{bi(0), a.Hi}
	case bn:
		return &Iv{bi(0), b.Hi}
	}
	return ivTop()
}

// ivOrXor: x | y or x ^ y for non-negative operands stays below the next power
// of two; otherwise unknown.
func ivOrXor(a, b *Iv) *Iv {
	if a == nil || b == nil {
		return nil
	}
	if a.Lo != nil && a.Lo.Sign() >= 0 && b.Lo != nil && b.Lo.Sign() >= 0 && a.Hi != nil && b.Hi != nil {
		m := maxHi(a.Hi, b.Hi)
		n := uint(m.BitLen())
		p := new(big.Int).Sub(new(big.Int).Lsh(bi(1), n), bi(1))
		return &Iv{bi(0), p}
	}
	return ivTop()
}

// typeRange returns the value range of an integer type (nil if t is not an
// integer type). Type parameters get the hull of their constraint's terms.
func typeRange(t types.Type, sizes types.Sizes) *Iv {
	t = types.Unalias(t)
	if tp, ok := t.(*types.TypeParam); ok {
		var r *Iv
		u, ok := tp.Constraint().Underlying().(*types.Interface)
		if !ok {
			return nil
		}
		found := false
		for i := 0; i < u.NumEmbeddeds(); i++ {
			switch e := types.Unalias(u.EmbeddedType(i)).(type) {
			case *types.Union:
				for j := 0; j < e.Len(); j++ {
					tr := typeRange(e.Term(j).Type(), sizes)
					if tr == nil {
						return nil
					}
					r = hull(r, tr)
					found = true
				}
			default:
				tr := typeRange(e, sizes)
				if tr == nil {
					return nil
				}
				r = hull(r, tr)
				found = true
			}
		}
		if !found {
			return nil
		}
		return r
	}
	b, ok := t.Underlying().(*types.Basic)
	if !ok || b.Info()&types.IsInteger == 0 {
		return nil
	}
	bits := uint(sizes.Sizeof(b) * 8)
	if b.Kind() == types.UntypedInt || b.Kind() == types.UntypedRune {
		return ivTop()
	}
	if b.Info()&types.IsUnsigned != 0 {
		return &Iv{bi(0), new(big.Int).Sub(new(big.Int).Lsh(bi(1), bits), bi(1))}
	}
	lo := new(big.Int).Neg(new(big.Int).Lsh(bi(1), bits-1))
	hi := new(big.Int).Sub(new(big.Int).Lsh(bi(1), bits-1), bi(1))
	return &Iv{lo, hi}
}

func isIntegerType(t types.Type, sizes types.Sizes) bool { return typeRange(t, sizes) != nil }

// clip: conversion / arithmetic result into type t. If the interval does not
// fit the type the operation may wrap: the result is the type's full range.
func clip(a *Iv, t types.Type, sizes types.Sizes) *Iv {
	if a == nil {
		return nil
	}
	tr := typeRange(t, sizes)
	if tr == nil {
		return a
	}
	if a.subset(tr) {
		return a
	}
	return tr
}

func ivFmt(a *Iv) string { return fmt.Sprint(a) }
