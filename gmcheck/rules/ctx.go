// Package rules implements the repository-specific static rules of DESIGN.md.
package rules

import (
	"fmt"
	"go/ast"
	"go/token"
	"go/types"
	"math/big"
	"sort"
	"strings"

	"gmcheck/core"

	"golang.org/x/tools/go/callgraph"
	"golang.org/x/tools/go/packages"
	"golang.org/x/tools/go/ssa"
)

// Ctx is the per-run context shared by the rules.
type Ctx struct {
	P *core.Prog

	srcFns   []*ssa.Function
	fnByName map[string]*ssa.Function
	reachMem map[string]map[*ssa.Function][]*ssa.Function

	Notes []string
	Verif string // verification directory (frozen tables)

	tlg *TLG

	declIdx map[*types.Func]declRef
	gtables map[*ssa.Global][]*big.Int
}

type declRef struct {
	fd *ast.FuncDecl
	pk *packages.Package
}

// declOfObj: the syntax of a module function given its types object.
func (c *Ctx) declOfObj(fo *types.Func) (*ast.FuncDecl, *packages.Package) {
	if fo == nil {
		return nil, nil
	}
	if c.declIdx == nil {
		c.declIdx = map[*types.Func]declRef{}
		for _, pk := range c.P.Pkgs {
			for _, f := range pk.Syntax {
				for _, d := range f.Decls {
					if fd, ok := d.(*ast.FuncDecl); ok && fd.Body != nil {
						if o, ok := pk.TypesInfo.Defs[fd.Name].(*types.Func); ok {
							c.declIdx[o] = declRef{fd, pk}
						}
					}
				}
			}
		}
	}
	r := c.declIdx[fo.Origin()]
	return r.fd, r.pk
}

func NewCtx(p *core.Prog) *Ctx {
	c := &Ctx{P: p, fnByName: map[string]*ssa.Function{}, reachMem: map[string]map[*ssa.Function][]*ssa.Function{}}
	c.srcFns = p.SrcFuncs()
	for _, f := range c.srcFns {
		c.fnByName[core.FnName(f)] = f
	}
	return c
}

func (c *Ctx) Funcs() []*ssa.Function { return c.srcFns }

func (c *Ctx) Fn(name string) *ssa.Function { return c.fnByName[name] }

// relPkg returns the module-relative package path of fn ("" if none).
func relPkg(fn *ssa.Function) string {
	pk := core.FnPkg(fn)
	if pk == nil {
		return "?"
	}
	return core.Rel(pk.Pkg.Path())
}

// inPkgs reports whether fn is declared in one of the given module-relative
// package paths (a trailing "/..." matches sub-packages).
func inPkgs(fn *ssa.Function, pkgs ...string) bool {
	r := relPkg(fn)
	for _, p := range pkgs {
		if strings.HasSuffix(p, "/...") {
			b := strings.TrimSuffix(p, "/...")
			if r == b || strings.HasPrefix(r, b+"/") {
				return true
			}
		} else if r == p {
			return true
		}
	}
	return false
}

// isNamed reports whether t (after pointer stripping if deref) is the named
// type pkgpath.name.
func isNamed(t types.Type, pkgPath, name string) bool {
	t = types.Unalias(t)
	n, ok := t.(*types.Named)
	if !ok {
		return false
	}
	o := n.Obj()
	return o.Name() == name && o.Pkg() != nil && o.Pkg().Path() == pkgPath
}

func deref(t types.Type) types.Type {
	if p, ok := types.Unalias(t).Underlying().(*types.Pointer); ok {
		return p.Elem()
	}
	return t
}

// calleeIs reports whether the static callee / interface method of the call is
// pkgPath.name (function) or a method named name on type recv in pkgPath
// (recv == "" for plain functions).
func calleeIs(call *ssa.CallCommon, pkgPath, recv, name string) bool {
	if call.IsInvoke() {
		m := call.Method
		if m.Name() != name || m.Pkg() == nil || m.Pkg().Path() != pkgPath {
			return false
		}
		if recv == "" {
			return false
		}
		rt := m.Type().(*types.Signature).Recv().Type()
		if n, ok := types.Unalias(rt).(*types.Named); ok {
			return n.Obj().Name() == recv
		}
		return false
	}
	f := call.StaticCallee()
	if f == nil {
		return false
	}
	f = core.Origin(f)
	if f.Name() != name {
		return false
	}
	obj := f.Object()
	if obj == nil || obj.Pkg() == nil || obj.Pkg().Path() != pkgPath {
		return false
	}
	sig := f.Signature
	if recv == "" {
		return sig.Recv() == nil
	}
	if sig.Recv() == nil {
		return false
	}
	rt := deref(sig.Recv().Type())
	if n, ok := types.Unalias(rt).(*types.Named); ok {
		return n.Obj().Name() == recv
	}
	return false
}

// calleeFunc gives "pkgpath.Name" or "pkgpath.(Recv).Name" of a call target
// ("" if dynamic through a func value).
func calleeName(call *ssa.CallCommon) string {
	if call.IsInvoke() {
		m := call.Method
		pk := ""
		if m.Pkg() != nil {
			pk = m.Pkg().Path()
		}
		rt := m.Type().(*types.Signature).Recv().Type()
		rn := "?"
		if n, ok := types.Unalias(rt).(*types.Named); ok {
			rn = n.Obj().Name()
			if n.Obj().Pkg() != nil {
				pk = n.Obj().Pkg().Path()
			}
		}
		return fmt.Sprintf("%s.(%s).%s", pk, rn, m.Name())
	}
	f := call.StaticCallee()
	if f == nil {
		if b, ok := call.Value.(*ssa.Builtin); ok {
			return "builtin." + b.Name()
		}
		return ""
	}
	f = core.Origin(f)
	pk := ""
	if p := core.FnPkg(f); p != nil {
		pk = p.Pkg.Path()
	}
	if r := f.Signature.Recv(); r != nil {
		rt := deref(r.Type())
		rn := "?"
		if n, ok := types.Unalias(rt).(*types.Named); ok {
			rn = n.Obj().Name()
			if n.Obj().Pkg() != nil {
				pk = n.Obj().Pkg().Path()
			}
		}
		return fmt.Sprintf("%s.(%s).%s", pk, rn, f.Name())
	}
	return pk + "." + f.Name()
}

// Reach computes the set of module functions reachable from roots over the VTA
// call graph (through module functions only), with a predecessor map for
// shortest call chains. Keyed by generic origin.
func (c *Ctx) Reach(roots []*ssa.Function, within func(*ssa.Function) bool) map[*ssa.Function][]*ssa.Function {
	cg := c.P.CallGraph()
	pred := map[*ssa.Function][]*ssa.Function{} // fn -> chain from root (inclusive)
	var queue []*ssa.Function
	for _, r := range roots {
		if r == nil {
			continue
		}
		if _, ok := pred[r]; !ok {
			pred[r] = []*ssa.Function{r}
			queue = append(queue, r)
		}
	}
	for len(queue) > 0 {
		f := queue[0]
		queue = queue[1:]
		n := cg.Nodes[f]
		if n == nil {
			continue
		}
		// deterministic order
		outs := toEdges(n.Out)
		sort.SliceStable(outs, func(i, j int) bool { return outs[i].callee.String() < outs[j].callee.String() })
		for _, e := range outs {
			g := e.callee
			if !c.P.InModule(g) {
				continue
			}
			if within != nil && !within(g) {
				continue
			}
			if _, ok := pred[g]; ok {
				continue
			}
			chain := append(append([]*ssa.Function(nil), pred[f]...), g)
			pred[g] = chain
			queue = append(queue, g)
		}
	}
	return pred
}

type callgraphEdge struct{ callee *ssa.Function }

func toEdges(es []*callgraph.Edge) []*callgraphEdge {
	out := make([]*callgraphEdge, 0, len(es))
	for _, e := range es {
		out = append(out, &callgraphEdge{e.Callee.Func})
	}
	return out
}

func chainString(chain []*ssa.Function) []string {
	var out []string
	for _, f := range chain {
		out = append(out, core.FnName(f))
	}
	return out
}

// instancesOf returns fn plus all instantiations of it known to the program
// (roots must include instantiations since the call graph is over instances).
func (c *Ctx) instancesOf(fn *ssa.Function) []*ssa.Function {
	out := []*ssa.Function{fn}
	if fn.TypeParams().Len() == 0 && (fn.Signature.Recv() == nil) {
		return out
	}
	cg := c.P.CallGraph()
	for f := range cg.Nodes {
		if f != nil && f != fn && f.Origin() == fn {
			out = append(out, f)
		}
	}
	sort.Slice(out, func(i, j int) bool { return out[i].String() < out[j].String() })
	return out
}

// astFuncDecl finds the syntax of a source function.
func (c *Ctx) astFuncDecl(fn *ssa.Function) (*ast.FuncDecl, *packages.Package) {
	fn = core.Origin(fn)
	d, ok := fn.Syntax().(*ast.FuncDecl)
	if !ok {
		return nil, nil
	}
	pk := core.FnPkg(fn)
	if pk == nil {
		return d, nil
	}
	return d, c.P.ByPth[pk.Pkg.Path()]
}

func posOf(p *core.Prog, pos token.Pos) string { return p.Pos(pos) }

// instrPos returns the best position for an instruction.
func instrPos(in ssa.Instruction) token.Pos {
	if in.Pos().IsValid() {
		return in.Pos()
	}
	if v, ok := in.(ssa.Value); ok {
		_ = v
	}
	// fall back to the function
	if in.Parent() != nil {
		return in.Parent().Pos()
	}
	return token.NoPos
}

// withHelpers: node plus the (normalised) bodies of the module functions it
// calls, transitively up to depth, never entering skip (the function that
// contains node: recursion through the dispatcher is not a helper). A rule that
// reads a case clause lexically sees the code the clause runs even when it
// has been moved into helpers.
func (c *Ctx) withHelpers(pk *packages.Package, node ast.Node, skip *ast.FuncDecl, depth int) []helperBody {
	out := []helperBody{{node, pk, nil}}
	seen := map[*ast.FuncDecl]bool{}
	var visit func(pk *packages.Package, n ast.Node, d int)
	visit = func(pk *packages.Package, n ast.Node, d int) {
		if d <= 0 {
			return
		}
		ast.Inspect(n, func(x ast.Node) bool {
			call, ok := x.(*ast.CallExpr)
			if !ok {
				return true
			}
			fo := calleeObj(pk.TypesInfo, call)
			if fo == nil || fo.Pkg() == nil || !strings.HasPrefix(fo.Pkg().Path(), core.ModPath) {
				return true
			}
			hd, hpk := c.declOfObj(fo)
			if hd == nil || seen[hd] || hd == skip || (skip != nil && hd.Name.Pos() == skip.Name.Pos()) {
				return true
			}
			seen[hd] = true
			nd := normDecl(hpk, hd)
			out = append(out, helperBody{nd.Body, hpk, nd})
			visit(hpk, nd.Body, d-1)
			return true
		})
	}
	visit(pk, node, depth)
	return out
}

type helperBody struct {
	node ast.Node
	pk   *packages.Package
	decl *ast.FuncDecl // nil for the starting node
}

// withPkgCallees: fn followed by the functions of its own package it calls
// statically, transitively up to depth (helpers a method body was split into).
func (c *Ctx) withPkgCallees(fn *ssa.Function, depth int) []*ssa.Function {
	out := []*ssa.Function{fn}
	seen := map[*ssa.Function]bool{fn: true}
	var visit func(f *ssa.Function, d int)
	visit = func(f *ssa.Function, d int) {
		if d <= 0 {
			return
		}
		for _, b := range f.Blocks {
			for _, in := range b.Instrs {
				ci, ok := in.(ssa.CallInstruction)
				if !ok {
					continue
				}
				g := ci.Common().StaticCallee()
				if g == nil {
					continue
				}
				g = core.Origin(g)
				if seen[g] || len(g.Blocks) == 0 || core.FnPkg(g) == nil || core.FnPkg(fn) == nil || core.FnPkg(g).Pkg != core.FnPkg(fn).Pkg {
					continue
				}
				seen[g] = true
				out = append(out, g)
				visit(g, d-1)
			}
		}
	}
	visit(fn, depth)
	return out
}
