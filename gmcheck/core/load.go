// Package core holds the loader, the obligation model and the evidence writer
// shared by every rule of gmcheck.
package core

import (
	"fmt"
	"go/ast"
	"go/token"
	"go/types"
	"os"
	"path/filepath"
	"sort"
	"strings"
	"sync"

	"golang.org/x/tools/go/callgraph"
	"golang.org/x/tools/go/callgraph/cha"
	"golang.org/x/tools/go/callgraph/vta"
	"golang.org/x/tools/go/packages"
	"golang.org/x/tools/go/ssa"
	"golang.org/x/tools/go/ssa/ssautil"
)

// ModPath is the module path of the analysed repository (the control fixtures
// are loaded with their own path, see LoadOpts.ModPath).
var ModPath = "github.com/Tnze/go-mc"

// Prog is the resolved program: type-checked syntax, SSA and (lazily) the VTA
// call graph of the working tree found at Dir.
type Prog struct {
	Dir   string
	Fset  *token.FileSet
	Pkgs  []*packages.Package // module packages only (sorted by path)
	ByPth map[string]*packages.Package
	SSA   *ssa.Program
	SPkgs map[string]*ssa.Package

	GOOS, GOARCH string

	cgOnce sync.Once
	cg     *callgraph.Graph

	allFnOnce sync.Once
	allFns    map[*ssa.Function]bool
}

// LoadOpts selects the build configuration.
type LoadOpts struct {
	Dir     string
	GOOS    string
	GOARCH  string
	MinPkgs int // refuse to analyse fewer module packages (0 = 30)
}

// skipPkg: packages that are not library code a user relies on (mains under
// examples/, code generators). They are still type-checked by the load (a
// type error anywhere fails the run) but never analysed.
func skipPkg(path string) bool {
	rel := strings.TrimPrefix(path, ModPath)
	return strings.HasPrefix(rel, "/examples") || strings.Contains(rel, "/generator") ||
		strings.HasPrefix(rel, "/data/lang/") || strings.HasPrefix(rel, "/internal/generateutils")
}

// Load type-checks the whole module at o.Dir and builds SSA for it.
func Load(o LoadOpts) (*Prog, error) {
	env := append(os.Environ(), "GOFLAGS=-mod=mod", "GOPROXY=off", "GOSUMDB=off", "GOTOOLCHAIN=local", "GOWORK=off", "CGO_ENABLED=0")
	if o.GOOS != "" {
		env = append(env, "GOOS="+o.GOOS)
	}
	if o.GOARCH != "" {
		env = append(env, "GOARCH="+o.GOARCH)
	}
	cfg := &packages.Config{
		Mode: packages.NeedName | packages.NeedFiles | packages.NeedCompiledGoFiles | packages.NeedImports |
			packages.NeedDeps | packages.NeedTypes | packages.NeedSyntax | packages.NeedTypesInfo | packages.NeedTypesSizes | packages.NeedModule,
		Dir:   o.Dir,
		Env:   env,
		Tests: false,
	}
	// "./..." does not descend into symlinked directories; a scratch copy may link a large
	// untouched tree (data/) instead of copying it: name such roots explicitly
	patterns := []string{"./..."}
	if ents, err := os.ReadDir(o.Dir); err == nil {
		for _, e := range ents {
			if e.Type()&os.ModeSymlink != 0 {
				if fi, err := os.Stat(filepath.Join(o.Dir, e.Name())); err == nil && fi.IsDir() {
					patterns = append(patterns, "./"+e.Name()+"/...")
				}
			}
		}
	}
	pkgs, err := packages.Load(cfg, patterns...)
	if err != nil {
		return nil, fmt.Errorf("load: %w", err)
	}
	var errs []string
	packages.Visit(pkgs, nil, func(p *packages.Package) {
		for _, e := range p.Errors {
			errs = append(errs, e.Error())
		}
	})
	if len(errs) > 0 {
		sort.Strings(errs)
		if len(errs) > 10 {
			errs = errs[:10]
		}
		return nil, fmt.Errorf("load: %d package errors (type-check failure is a failure of the check): %s", len(errs), strings.Join(errs, "; "))
	}
	p := &Prog{Dir: o.Dir, ByPth: map[string]*packages.Package{}, SPkgs: map[string]*ssa.Package{}, GOOS: o.GOOS, GOARCH: o.GOARCH}
	if len(pkgs) > 0 {
		p.Fset = pkgs[0].Fset
	}
	prog, spkgs := ssautil.AllPackages(pkgs, ssa.InstantiateGenerics)
	prog.Build()
	p.SSA = prog
	for i, pk := range pkgs {
		if !strings.HasPrefix(pk.PkgPath, ModPath) {
			continue
		}
		p.ByPth[pk.PkgPath] = pk
		if spkgs[i] != nil {
			p.SPkgs[pk.PkgPath] = spkgs[i]
		}
		if skipPkg(pk.PkgPath) {
			continue
		}
		p.Pkgs = append(p.Pkgs, pk)
	}
	sort.Slice(p.Pkgs, func(i, j int) bool { return p.Pkgs[i].PkgPath < p.Pkgs[j].PkgPath })
	minPkgs := o.MinPkgs
	if minPkgs == 0 {
		minPkgs = 30
	}
	if len(p.Pkgs) < minPkgs {
		return nil, fmt.Errorf("load: only %d module packages found under %s (expected >= %d): refusing to pass vacuously", len(p.Pkgs), o.Dir, minPkgs)
	}
	return p, nil
}

// Rel strips the module path prefix from a package path ("" is the root).
func Rel(pkgPath string) string {
	r := strings.TrimPrefix(pkgPath, ModPath)
	return strings.TrimPrefix(r, "/")
}

// Pkg returns a module package by its path relative to the module root.
func (p *Prog) Pkg(rel string) *packages.Package {
	if rel == "" {
		return p.ByPth[ModPath]
	}
	return p.ByPth[ModPath+"/"+rel]
}

// SPkg returns the SSA package by relative path.
func (p *Prog) SPkg(rel string) *ssa.Package {
	if rel == "" {
		return p.SPkgs[ModPath]
	}
	return p.SPkgs[ModPath+"/"+rel]
}

// Pos renders a position relative to the repository root.
func (p *Prog) Pos(pos token.Pos) string {
	if !pos.IsValid() {
		return "-"
	}
	ps := p.Fset.Position(pos)
	f := strings.TrimPrefix(ps.Filename, p.Dir+"/")
	return fmt.Sprintf("%s:%d:%d", f, ps.Line, ps.Column)
}

// InModule reports whether fn belongs to an analysed module package.
func (p *Prog) InModule(fn *ssa.Function) bool {
	pk := FnPkg(fn)
	if pk == nil {
		return false
	}
	path := pk.Pkg.Path()
	if !strings.HasPrefix(path, ModPath) || skipPkg(path) {
		return false
	}
	return true
}

// FnPkg returns the declaring package of fn (following generic origins and
// enclosing functions of closures).
func FnPkg(fn *ssa.Function) *ssa.Package {
	for fn != nil {
		if fn.Pkg != nil {
			return fn.Pkg
		}
		if o := fn.Origin(); o != nil && o != fn {
			fn = o
			continue
		}
		if fn.Parent() != nil {
			fn = fn.Parent()
			continue
		}
		return nil
	}
	return nil
}

// Origin maps an instantiation to its generic origin.
func Origin(fn *ssa.Function) *ssa.Function {
	if fn == nil {
		return nil
	}
	if o := fn.Origin(); o != nil {
		return o
	}
	return fn
}

// FnName gives a stable, line-independent name: pkg.(Recv).Name or pkg.Name;
// closures get parent$N.
func FnName(fn *ssa.Function) string {
	fn = Origin(fn)
	if fn.Parent() != nil {
		return FnName(fn.Parent()) + "$" + strings.TrimPrefix(fn.Name(), fn.Parent().Name()+"$")
	}
	pk := ""
	if fn.Pkg != nil {
		pk = Rel(fn.Pkg.Pkg.Path())
	}
	if recv := fn.Signature.Recv(); recv != nil {
		t := recv.Type()
		ptr := ""
		if pt, ok := t.(*types.Pointer); ok {
			t = pt.Elem()
			ptr = "*"
		}
		tn := "?"
		if n, ok := t.(*types.Named); ok {
			tn = n.Obj().Name()
			if n.Obj().Pkg() != nil && pk == "" {
				pk = Rel(n.Obj().Pkg().Path())
			}
		} else if a, ok := t.(*types.Alias); ok {
			tn = a.Obj().Name()
		}
		return fmt.Sprintf("%s.(%s%s).%s", pk, ptr, tn, fn.Name())
	}
	return pk + "." + fn.Name()
}

// SrcFuncs lists every source-level function (incl. closures, generic bodies;
// excluding instantiations and synthetic wrappers) of the analysed packages.
func (p *Prog) SrcFuncs() []*ssa.Function {
	var out []*ssa.Function
	seen := map[*ssa.Function]bool{}
	var add func(fn *ssa.Function)
	add = func(fn *ssa.Function) {
		if fn == nil || seen[fn] || fn.Blocks == nil || fn.Synthetic != "" && !strings.HasPrefix(fn.Synthetic, "package init") {
			return
		}
		if fn.Synthetic != "" {
			return
		}
		seen[fn] = true
		out = append(out, fn)
		for _, a := range fn.AnonFuncs {
			add(a)
		}
	}
	for _, pk := range p.Pkgs {
		sp := p.SPkgs[pk.PkgPath]
		if sp == nil {
			continue
		}
		var names []string
		for n := range sp.Members {
			names = append(names, n)
		}
		sort.Strings(names)
		for _, n := range names {
			switch m := sp.Members[n].(type) {
			case *ssa.Function:
				add(m)
			case *ssa.Type:
				for _, t := range []types.Type{m.Type(), types.NewPointer(m.Type())} {
					ms := p.SSA.MethodSets.MethodSet(t)
					for i := 0; i < ms.Len(); i++ {
						f := p.SSA.MethodValue(ms.At(i))
						if f != nil && f.Synthetic == "" {
							add(f)
						}
					}
				}
			}
		}
		// generic named types: methods are reachable through the declared objects
		scope := pk.Types.Scope()
		for _, n := range scope.Names() {
			tn, ok := scope.Lookup(n).(*types.TypeName)
			if !ok {
				continue
			}
			named, ok := tn.Type().(*types.Named)
			if !ok {
				continue
			}
			for i := 0; i < named.NumMethods(); i++ {
				if f := p.SSA.FuncValue(named.Method(i)); f != nil {
					add(f)
				}
			}
		}
	}
	sort.SliceStable(out, func(i, j int) bool { return FnName(out[i]) < FnName(out[j]) })
	return out
}

// FuncByName finds a source function by its FnName.
func (p *Prog) FuncByName(name string) *ssa.Function {
	for _, f := range p.SrcFuncs() {
		if FnName(f) == name {
			return f
		}
	}
	return nil
}

// CallGraph builds (once) the VTA call graph seeded with CHA.
func (p *Prog) CallGraph() *callgraph.Graph {
	p.cgOnce.Do(func() {
		all := ssautil.AllFunctions(p.SSA)
		p.cg = vta.CallGraph(all, cha.CallGraph(p.SSA))
	})
	return p.cg
}

// Callees returns the possible callees of a call instruction: the static
// callee if there is one, else the VTA edges.
func (p *Prog) Callees(site ssa.CallInstruction) []*ssa.Function {
	if c := site.Common().StaticCallee(); c != nil {
		return []*ssa.Function{c}
	}
	cg := p.CallGraph()
	n := cg.Nodes[site.Parent()]
	if n == nil {
		return nil
	}
	var out []*ssa.Function
	seen := map[*ssa.Function]bool{}
	for _, e := range n.Out {
		if e.Site == site && !seen[e.Callee.Func] {
			seen[e.Callee.Func] = true
			out = append(out, e.Callee.Func)
		}
	}
	sort.Slice(out, func(i, j int) bool { return out[i].String() < out[j].String() })
	return out
}

// FileOf returns the syntax file containing pos.
func (p *Prog) FileOf(pk *packages.Package, pos token.Pos) *ast.File {
	for _, f := range pk.Syntax {
		if f.Pos() <= pos && pos <= f.End() {
			return f
		}
	}
	return nil
}
