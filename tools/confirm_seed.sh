#!/bin/bash
# usage: confirm_seed.sh <dir with patch.diff + zz_seed_demo_test.go> [demo package dir]
# Confirms in a scratch copy: patch applies, builds, baseline tests pass, demo fails with / passes without.
set -u
export GOFLAGS="-mod=mod -trimpath" GOPROXY=off GOSUMDB=off GOTOOLCHAIN=local GOWORK=off
d=$(readlink -f "$1")
scratch=$(mktemp -d "${TMPDIR:-/tmp}/gmcseed.XXXXXX")
[ -n "$scratch" ] && [ -d "$scratch" ] || { echo "NO-SCRATCH-DIR (disk full?)"; exit 9; }
case "$scratch" in /repo*|/verif*) echo "REFUSING scratch=$scratch"; exit 9;; esac
trap 'rm -rf "$scratch"' EXIT
rsync -a --exclude .git /repo/ "$scratch/r/"
cd "$scratch/r"
pk=${2:-}
if [ -z "$pk" ]; then pk=$(dirname "$(grep -m1 '^+++ b/' "$d/patch.diff" | sed 's#+++ b/##')"); fi
demo=$(ls "$d"/*_test.go 2>/dev/null | head -1)
[ -z "$demo" ] && { echo "NO-DEMO $d"; exit 2; }
cp "$demo" "$pk/"
# without patch
if go test -count=1 -run . -timeout 120s "./$pk/" >"$scratch/clean.log" 2>&1; then clean=pass; else clean=FAIL; fi
patch -p1 -s --batch < "$d/patch.diff" || { echo "PATCH-FAILED"; exit 3; }
go build ./... >"$scratch/b.log" 2>&1 || { echo "NO-COMPILE"; cat "$scratch/b.log" | head; exit 4; }
if go test -count=1 -timeout 120s "./$pk/" >"$scratch/mut.log" 2>&1; then mut=pass; else mut=FAIL; fi
rm "$pk/$(basename "$demo")"
if go test -count=1 -timeout 300s ./... >"$scratch/base.log" 2>&1; then base=pass; else base=FAIL; fi
echo "seed $d : demo-on-clean=$clean demo-on-mutant=$mut baseline-with-mutant=$base pkg=$pk"
[ "$clean" = pass ] && [ "$mut" = FAIL ] && [ "$base" = pass ]
