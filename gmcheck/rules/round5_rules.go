package rules

// Rules added after the fifth round of seeded changes (DESIGN.md 8.10).

import (
	"fmt"
	"go/constant"
	"go/token"
	"go/types"
	"math/big"
	"reflect"
	"sort"
	"strings"

	"gmcheck/core"

	"golang.org/x/tools/go/ssa"
)

// ---------------------------------------------------------------------------
// R-ERRAS[form]: errors.As(err, &target) matches by the dynamic type of the
// errors in the chain. When the module only ever turns *T into an error and the
// target is a T (or the other way round), the match can never succeed and the
// branch behind it - here: telling the refused player why - is dead. A type that
// is never made into an error in either form is left alone (it may be produced
// by the user's own handler).

func (c *Ctx) ErrorsAsForms(pkgs ...string) []core.Ob {
	var obs []core.Ob
	made := map[string]bool{}
	for _, fn := range c.Funcs() {
		for _, b := range fn.Blocks {
			for _, in := range b.Instrs {
				if mi, ok := in.(*ssa.MakeInterface); ok {
					// conversions to an error interface only (the target of errors.As itself is boxed as `any`)
					if it, isI := mi.Type().Underlying().(*types.Interface); isI {
						for i := 0; i < it.NumMethods(); i++ {
							if it.Method(i).Name() == "Error" {
								made[types.TypeString(mi.X.Type(), nil)] = true
							}
						}
					}
				}
			}
		}
	}
	for _, fn := range c.Funcs() {
		if !inPkgs(fn, pkgs...) {
			continue
		}
		k := 0
		for _, ci := range callsIn(fn, func(n string, _ *ssa.CallCommon) bool { return n == "errors.As" }) {
			args := ci.Common().Args
			if len(args) != 2 {
				continue
			}
			mi, ok := args[1].(*ssa.MakeInterface)
			if !ok {
				continue
			}
			pt, ok := mi.X.Type().Underlying().(*types.Pointer)
			if !ok {
				continue
			}
			u := pt.Elem()
			if _, isIface := u.Underlying().(*types.Interface); isIface {
				continue
			}
			// only the module's own error types
			var named *types.Named
			if p, isPtr := u.(*types.Pointer); isPtr {
				named, _ = types.Unalias(p.Elem()).(*types.Named)
			} else {
				named, _ = types.Unalias(u).(*types.Named)
			}
			if named == nil || named.Obj().Pkg() == nil || !strings.HasPrefix(named.Obj().Pkg().Path(), core.ModPath) {
				continue
			}
			k++
			o := core.Ob{Rule: "R-ERRAS", Key: fmt.Sprintf("%s#as%d:%s", core.FnName(fn), k, named.Obj().Name()), Pos: c.P.Pos(ci.Pos()), Func: core.FnName(fn), Armed: true, Status: core.OK,
				Want: "the type errors.As looks for is the form (value or pointer) in which the module turns " + named.Obj().Name() + " into an error"}
			var alt types.Type
			if p, isPtr := u.(*types.Pointer); isPtr {
				alt = p.Elem()
			} else {
				alt = types.NewPointer(u)
			}
			us, as := types.TypeString(u, nil), types.TypeString(alt, nil)
			switch {
			case made[us]:
				o.Got = "errors of dynamic type " + core.Rel(us) + " are created"
			case made[as]:
				o.Status = core.Violated
				o.Got = fmt.Sprintf("the module only creates errors of dynamic type %s; errors.As with a target of type %s never matches them, the branch behind it is dead", core.Rel(as), core.Rel(us))
			default:
				o.Got = "no error of this type is created in the module in either form (left to the user's handlers)"
			}
			obs = append(obs, o)
		}
	}
	return obs
}

// ---------------------------------------------------------------------------
// R-POOL[put-after-retain]: a buffer handed back to a pool may be given to
// somebody else at once. In a function that puts a field of a local struct back
// (pool.Put(p.Data)), no copy of that struct that was stored somewhere else (a
// pending list, a field) earlier in the life of the same local may still be
// around: the Put is not reachable from such a store without the local being
// created anew.

func (c *Ctx) PutAfterRetain(pkgs ...string) []core.Ob {
	var obs []core.Ob
	for _, fn := range c.Funcs() {
		if !inPkgs(fn, pkgs...) {
			continue
		}
		k := 0
		for _, ci := range callsIn(fn, func(n string, _ *ssa.CallCommon) bool { return n == "sync.(Pool).Put" }) {
			args := ci.Common().Args
			if len(args) < 2 {
				continue
			}
			v := args[1]
			if mi, ok := v.(*ssa.MakeInterface); ok {
				v = mi.X
			}
			ld, ok := v.(*ssa.UnOp)
			if !ok || ld.Op != token.MUL {
				continue
			}
			fa, ok := ld.X.(*ssa.FieldAddr)
			if !ok {
				continue
			}
			cell, ok := fa.X.(*ssa.Alloc)
			if !ok {
				continue
			}
			k++
			o := core.Ob{Rule: "R-POOL", Key: fmt.Sprintf("%s#put-after-retain%d", core.FnName(fn), k), Pos: c.P.Pos(ci.Pos()), Func: core.FnName(fn), Armed: true, Status: core.OK,
				Want: "the buffer of a local packet goes back to the pool only if no copy of that packet was kept (appended, stored) since the local was created"}
			// copies of the whole struct stored elsewhere
			for _, r := range *cell.Referrers() {
				whole, ok := r.(*ssa.UnOp)
				if !ok || whole.Op != token.MUL || whole.Referrers() == nil {
					continue
				}
				for _, u := range *whole.Referrers() {
					st, ok := u.(*ssa.Store)
					if !ok || st.Val != ssa.Value(whole) || st.Addr == ssa.Value(cell) {
						continue
					}
					if instrReaches(st, ci.(ssa.Instruction), cell) {
						o.Status = core.Violated
						o.Got = "a copy of the packet is kept at " + c.P.Pos(st.Pos()) + " and its buffer is put back into the pool afterwards: the pool hands the same memory to the next packet while the kept one is still to be handled"
					}
				}
			}
			obs = append(obs, o)
		}
	}
	return obs
}

// instrReaches: instruction b can execute after instruction a without `fresh` executing in between.
func instrReaches(a, b ssa.Instruction, fresh ssa.Instruction) bool {
	idx := func(in ssa.Instruction) int {
		for i, x := range in.Block().Instrs {
			if x == in {
				return i
			}
		}
		return -1
	}
	ia, ib := idx(a), idx(b)
	fi := -1
	if fresh != nil {
		fi = idx(fresh)
	}
	// rest of a's block
	if a.Block() == b.Block() && ib > ia {
		if fresh == nil || fresh.Block() != a.Block() || !(fi > ia && fi < ib) {
			return true
		}
	}
	if fresh != nil && fresh.Block() == a.Block() && fi > ia {
		return false
	}
	seen := map[*ssa.BasicBlock]bool{}
	work := append([]*ssa.BasicBlock(nil), a.Block().Succs...)
	for len(work) > 0 {
		x := work[0]
		work = work[1:]
		if seen[x] {
			continue
		}
		seen[x] = true
		if x == b.Block() {
			if fresh == nil || fresh.Block() != x || fi > ib {
				return true
			}
		}
		if fresh != nil && fresh.Block() == x {
			continue
		}
		work = append(work, x.Succs...)
	}
	return false
}

// ---------------------------------------------------------------------------
// T-SNBT[float-format]: the text writer formats floats in a spelling the
// module's own scanner reads back as a number: the scanner accepts an exponent
// only behind a fraction ("1.5e+06"), so strconv's 'f' format (never an
// exponent) or 'e'/'E' with at least one fractional digit qualify; 'g'/'G' and
// the shortest 'e' produce "1e+06", which is scanned as an unquoted string.

func (c *Ctx) SNBTFloatFormat(pkg string) []core.Ob {
	var obs []core.Ob
	for _, fn := range c.Funcs() {
		if !inPkgs(fn, pkg) {
			continue
		}
		k := 0
		for _, ci := range callsIn(fn, func(n string, _ *ssa.CallCommon) bool {
			return n == "strconv.FormatFloat" || n == "strconv.AppendFloat"
		}) {
			args := ci.Common().Args
			off := 0
			if calleeName(ci.Common()) == "strconv.AppendFloat" {
				off = 1
			}
			if len(args) < off+4 {
				continue
			}
			k++
			o := core.Ob{Rule: "T-SNBT", Key: fmt.Sprintf("float-format:%s#%d", core.FnName(fn), k), Pos: c.P.Pos(ci.Pos()), Func: core.FnName(fn), Armed: true, Status: core.OK,
				Want: "floats are written exactly and in a spelling the scanner reads back as a number: 'f' with precision -1 (no exponent, shortest exact decimal)"}
			f, okF := constIntVal(stripConv(args[off+1]))
			p, okP := constIntVal(stripConv(args[off+2]))
			switch {
			case !okF:
				o.Status, o.Got = core.Violated, "the format byte is not a constant"
			case f == 'f' && okP && p == -1:
				o.Got = "'f' with the shortest exact precision"
			case f == 'f':
				o.Status = core.Violated
				o.Got = fmt.Sprintf("'f' with a fixed precision of %d digits: smaller magnitudes are written as 0.0000... and do not come back (finite floats are to round-trip exactly; precision -1 writes the shortest exact decimal)", p)
			case (f == 'e' || f == 'E') && okP && p >= 17:
				o.Got = fmt.Sprintf("'%c' with precision %d (exact, exponent behind a fraction)", rune(f), p)
			default:
				o.Status = core.Violated
				o.Got = fmt.Sprintf("format '%c': values such as 1e+06 are written with an exponent and no fraction, which the scanner takes for an unquoted string (the float comes back as TAG_String)", rune(f))
			}
			obs = append(obs, o)
		}
	}
	return obs
}

// ---------------------------------------------------------------------------
// T-SNBT[text-through-literal-parser]: in the text decoder, a piece of the
// input buffer becomes a Go string (a tag name, a value) only where the literal
// parser has looked at it: the parser is what removes the quotes AND the escapes
// of a quoted string. A string(...) of a slice of the decoder's input that no
// call of the literal parser dominates copies `\"` and `\\` into the name.

func (c *Ctx) SNBTTextThroughParser(pkg string) []core.Ob {
	lp := c.literalParser()
	if lp == nil {
		return []core.Ob{{Rule: "T-SNBT", Key: "text-through-literal-parser:anchor", Armed: true, Status: core.Violated, Want: "the literal parser of the text decoder exists", Got: "not found"}}
	}
	var obs []core.Ob
	for _, fn := range c.Funcs() {
		if !inPkgs(fn, pkg) || fn == lp {
			continue
		}
		// functions working on the text decoder's state: a pointer parameter to a struct with a []byte field
		var state *ssa.Parameter
		for _, p := range fn.Params {
			if st, ok := deref(p.Type()).Underlying().(*types.Struct); ok {
				if _, isPtr := p.Type().Underlying().(*types.Pointer); !isPtr {
					continue
				}
				for i := 0; i < st.NumFields(); i++ {
					if sl, ok := st.Field(i).Type().Underlying().(*types.Slice); ok && types.Identical(sl.Elem(), types.Typ[types.Byte]) {
						// and it is the state the literal parser's callers use: it has a scanner-like field too
						state = p
					}
				}
			}
		}
		if state == nil {
			continue
		}
		var parserCalls []*ssa.BasicBlock
		for _, ci := range callsIn(fn, func(_ string, cc *ssa.CallCommon) bool {
			g := cc.StaticCallee()
			return g != nil && core.Origin(g) == lp
		}) {
			parserCalls = append(parserCalls, ci.Block())
		}
		fromInput := func(v ssa.Value) bool {
			seen := map[ssa.Value]bool{}
			var walk func(v ssa.Value) bool
			walk = func(v ssa.Value) bool {
				if seen[v] {
					return false
				}
				seen[v] = true
				switch x := v.(type) {
				case *ssa.Slice:
					return walk(x.X)
				case *ssa.Phi:
					for _, e := range x.Edges {
						if walk(e) {
							return true
						}
					}
				case *ssa.UnOp:
					if fa, ok := x.X.(*ssa.FieldAddr); ok && x.Op == token.MUL && fa.X == ssa.Value(state) {
						if sl, ok := x.Type().Underlying().(*types.Slice); ok && types.Identical(sl.Elem(), types.Typ[types.Byte]) {
							return true
						}
					}
				}
				return false
			}
			return walk(v)
		}
		k := 0
		for _, b := range fn.Blocks {
			for _, in := range b.Instrs {
				cv, ok := in.(*ssa.Convert)
				if !ok {
					continue
				}
				if bt, ok := cv.Type().Underlying().(*types.Basic); !ok || bt.Kind() != types.String {
					continue
				}
				if !fromInput(cv.X) {
					continue
				}
				// error texts are not data
				onlyInErrors := cv.Referrers() != nil && len(*cv.Referrers()) > 0
				if cv.Referrers() != nil {
					for _, r := range *cv.Referrers() {
						mi, isMI := r.(*ssa.MakeInterface)
						if !isMI {
							onlyInErrors = false
							continue
						}
						_ = mi
					}
				}
				if onlyInErrors {
					continue
				}
				k++
				o := core.Ob{Rule: "T-SNBT", Key: fmt.Sprintf("text-through-literal-parser:%s#%d", core.FnName(fn), k), Pos: c.P.Pos(cv.Pos()), Func: core.FnName(fn), Armed: true, Status: core.OK,
					Want: "input text is taken over as a string only where " + lp.Name() + " has classified it (quoted strings are un-escaped by it)"}
				dom := false
				for _, pb := range parserCalls {
					if pb == b || pb.Dominates(b) {
						dom = true
					}
				}
				if !dom {
					o.Status, o.Got = core.Violated, "a slice of the input becomes a string without "+lp.Name()+" having looked at it: the escapes of a quoted name or value are copied verbatim"
				}
				obs = append(obs, o)
			}
		}
	}
	return obs
}

// ---------------------------------------------------------------------------
// R-ESCAPE[pass-order]: when a string is escaped in several passes, a later
// pass must not rewrite what an earlier pass inserted: ReplaceAll(s, `"`, `\"`)
// followed by ReplaceAll(.., `\`, `\\`) doubles the backslash the first pass put
// in front of the quote. (One pass with strings.NewReplacer has no order.)

func (c *Ctx) EscapePassOrder(pkgs ...string) []core.Ob {
	var obs []core.Ob
	// the constant prefix/suffix text of a string expression: constants and concatenations of them
	var constParts func(v ssa.Value, depth int) []string
	constParts = func(v ssa.Value, depth int) []string {
		if depth > 4 {
			return nil
		}
		switch x := v.(type) {
		case *ssa.Const:
			if x.Value != nil && x.Value.Kind() == constant.String {
				return []string{constant.StringVal(x.Value)}
			}
		case *ssa.BinOp:
			if x.Op == token.ADD {
				return append(constParts(x.X, depth+1), constParts(x.Y, depth+1)...)
			}
		case *ssa.Phi:
			var out []string
			for _, e := range x.Edges {
				out = append(out, constParts(e, depth+1)...)
			}
			return out
		}
		return nil
	}
	for _, fn := range c.Funcs() {
		if !inPkgs(fn, pkgs...) {
			continue
		}
		k := 0
		for _, ci := range callsIn(fn, func(n string, _ *ssa.CallCommon) bool { return n == "strings.ReplaceAll" || n == "strings.Replace" }) {
			second, ok := ci.(*ssa.Call)
			if !ok {
				continue
			}
			// the string it works on comes (possibly through phis) out of an earlier pass
			seen := map[ssa.Value]bool{}
			var firsts []*ssa.Call
			var walk func(v ssa.Value)
			walk = func(v ssa.Value) {
				if seen[v] {
					return
				}
				seen[v] = true
				switch x := v.(type) {
				case *ssa.Phi:
					for _, e := range x.Edges {
						walk(e)
					}
				case *ssa.Call:
					if n := calleeName(x.Common()); n == "strings.ReplaceAll" || n == "strings.Replace" {
						firsts = append(firsts, x)
					}
				}
			}
			walk(second.Call.Args[0])
			for _, first := range firsts {
				k++
				o := core.Ob{Rule: "R-ESCAPE", Key: fmt.Sprintf("pass-order:%s#%d", core.FnName(fn), k), Pos: c.P.Pos(second.Pos()), Func: core.FnName(fn), Armed: true, Status: core.OK,
					Want: "a later replacement pass does not match text an earlier pass inserted"}
				olds := constParts(second.Call.Args[1], 0)
				news := constParts(first.Call.Args[2], 0)
				for _, nw := range news {
					for _, od := range olds {
						if od != "" && strings.Contains(nw, od) {
							o.Status = core.Violated
							o.Got = fmt.Sprintf("the first pass inserts %q and the second pass replaces %q: the escape character added by the first pass is escaped again", nw, od)
						}
					}
				}
				obs = append(obs, o)
			}
		}
	}
	return obs
}

// ---------------------------------------------------------------------------
// R-ORDER[exact-before-fold]: a compound entry goes to the struct field whose
// name it carries exactly; the case-insensitive comparison is the fallback for
// entries no field matches exactly. Two structural halves:
//   (a) the exact-name index (the map[string]int kept with the field list) is
//       keyed by the fields' names themselves - an extra key derived from a name
//       (lower-cased, trimmed) can shadow another field's exact name;
//   (b) in the decoder, every strings.EqualFold on the way from the struct case
//       lies behind the not-found edge of a lookup in that index.

func (c *Ctx) ExactBeforeFold(pkg, root string) []core.Ob {
	var obs []core.Ob
	// (a)
	for _, fn := range c.Funcs() {
		if !inPkgs(fn, pkg) {
			continue
		}
		k := 0
		for _, b := range fn.Blocks {
			for _, in := range b.Instrs {
				mu, ok := in.(*ssa.MapUpdate)
				if !ok {
					continue
				}
				mt, ok := mu.Map.Type().Underlying().(*types.Map)
				if !ok || !types.Identical(mt.Key(), types.Typ[types.String]) || !types.Identical(mt.Elem(), types.Typ[types.Int]) {
					continue
				}
				// the map ends up in a struct field (the index kept with the field list)
				kept := false
				if mu.Map.Referrers() != nil {
					for _, r := range *mu.Map.Referrers() {
						if st, ok := r.(*ssa.Store); ok && st.Val == mu.Map {
							if _, isF := st.Addr.(*ssa.FieldAddr); isF {
								kept = true
							}
						}
					}
				}
				if !kept {
					continue
				}
				k++
				o := core.Ob{Rule: "R-ORDER", Key: fmt.Sprintf("exact-before-fold:%s#index-key%d", core.FnName(fn), k), Pos: c.P.Pos(mu.Pos()), Func: core.FnName(fn), Armed: true, Status: core.OK,
					Want: "the exact-name index is keyed by the field names themselves"}
				isName := false
				switch x := mu.Key.(type) {
				case *ssa.UnOp:
					if fa, ok := x.X.(*ssa.FieldAddr); ok && x.Op == token.MUL {
						if st, ok := deref(fa.X.Type()).Underlying().(*types.Struct); ok && types.Identical(st.Field(fa.Field).Type(), types.Typ[types.String]) {
							isName = true
						}
					}
				case *ssa.Field:
					isName = true
				}
				if !isName {
					o.Status, o.Got = core.Violated, "a key computed from a name ("+mu.Key.String()+") is entered besides the names: it can replace the entry of another field whose exact name it equals"
				}
				obs = append(obs, o)
			}
		}
	}
	// (b)
	rf := c.Fn(root)
	if rf == nil {
		return append(obs, core.Ob{Rule: "R-ORDER", Key: "exact-before-fold:anchor", Armed: true, Status: core.Violated, Want: root + " exists", Got: "not found"})
	}
	v := c.inlineView(rf, 2)
	var notFound []int // first nodes of not-found successors
	for _, n := range v.nodes {
		lk, ok := n.in.(*ssa.Lookup)
		if !ok || !lk.CommaOk {
			continue
		}
		mt, ok := lk.X.Type().Underlying().(*types.Map)
		if !ok || !types.Identical(mt.Key(), types.Typ[types.String]) || !types.Identical(mt.Elem(), types.Typ[types.Int]) {
			continue
		}
		if lk.Referrers() == nil {
			continue
		}
		for _, r := range *lk.Referrers() {
			ex, ok := r.(*ssa.Extract)
			if !ok || ex.Index != 1 || ex.Referrers() == nil {
				continue
			}
			for _, u := range *ex.Referrers() {
				var iff *ssa.If
				neg := false
				switch x := u.(type) {
				case *ssa.If:
					iff = x
				case *ssa.UnOp:
					if x.Op == token.NOT && x.Referrers() != nil {
						for _, uu := range *x.Referrers() {
							if i2, ok := uu.(*ssa.If); ok {
								iff, neg = i2, true
							}
						}
					}
				}
				if iff == nil {
					continue
				}
				nf := iff.Block().Succs[1]
				if neg {
					nf = iff.Block().Succs[0]
				}
				if len(nf.Preds) != 1 {
					continue
				}
				if id, ok := v.first[n.frame][nf]; ok && id >= 0 {
					notFound = append(notFound, id)
				}
			}
		}
	}
	k := 0
	for _, n := range v.nodes {
		ci, ok := n.in.(*ssa.Call)
		if !ok || calleeName(ci.Common()) != "strings.EqualFold" {
			continue
		}
		k++
		o := core.Ob{Rule: "R-ORDER", Key: fmt.Sprintf("exact-before-fold:%s#fold%d", core.FnName(n.frame.fn), k), Pos: c.P.Pos(ci.Pos()), Func: core.FnName(n.frame.fn), Armed: true, Status: core.OK,
			Want: "a case-insensitive name comparison is made only after the exact-name index has been asked and had no entry"}
		behind := false
		for _, nf := range notFound {
			if nf == n.id || v.dominates(nf, n.id) {
				behind = true
			}
		}
		if !behind {
			o.Status, o.Got = core.Violated, "this comparison can decide the target field before the exact-name index was consulted: an entry goes to a field that merely fold-equals its name although another field carries the name exactly"
		}
		obs = append(obs, o)
	}
	return obs
}

// ---------------------------------------------------------------------------
// R-LEN[reflect-slice-length]: a decoder that sizes its destination slice
// through reflection leaves it with exactly the decoded length: on every path
// from a SetLen / Set(MakeSlice) whose length is not the decoded count to a
// success return there is a later SetLen to the decoded count.

func (c *Ctx) ReflectSliceLength(fnName string) []core.Ob {
	fn := c.Fn(fnName)
	if fn == nil {
		// a generic method: any instance
		for _, f := range c.Funcs() {
			if core.FnName(core.Origin(f)) == fnName || core.FnName(f) == fnName {
				fn = core.Origin(f)
				break
			}
		}
	}
	o := core.Ob{Rule: "R-LEN", Key: "reflect-slice-length:" + fnName, Armed: true, Status: core.OK,
		Want: "the destination slice is left with the decoded number of elements: the last length given to it before a success return is the decoded count"}
	if fn == nil {
		o.Status, o.Got = core.Violated, fnName+" not found"
		return []core.Ob{o}
	}
	o.Pos, o.Func = c.P.Pos(fn.Pos()), core.FnName(fn)
	// the decoded count: the integer conversions of the length value read first (a local of the
	// length type the prefix is decoded into)
	isCount := func(v ssa.Value) bool {
		seen := map[ssa.Value]bool{}
		var walk func(v ssa.Value, d int) bool
		walk = func(v ssa.Value, d int) bool {
			if d > 8 || seen[v] {
				return false
			}
			seen[v] = true
			switch x := v.(type) {
			case *ssa.Convert:
				return walk(x.X, d+1)
			case *ssa.ChangeType:
				return walk(x.X, d+1)
			case *ssa.UnOp:
				if x.Op == token.MUL {
					if al, ok := x.X.(*ssa.Alloc); ok {
						// the local the prefix was decoded into: its address goes into a call (ReadFrom through an interface)
						for _, r := range *al.Referrers() {
							switch r.(type) {
							case *ssa.MakeInterface, ssa.CallInstruction, *ssa.ChangeInterface:
								return true
							}
						}
					}
				}
			case *ssa.Call:
				// reflect.Value.Int()/Uint() of the decoded prefix
				n := calleeName(x.Common())
				if n == "reflect.(Value).Int" || n == "reflect.(Value).Uint" {
					return true
				}
			case *ssa.Phi:
				for _, e := range x.Edges {
					if !walk(e, d+1) {
						return false
					}
				}
				return len(x.Edges) > 0
			}
			return false
		}
		return walk(v, 0)
	}
	type setter struct {
		in   ssa.Instruction
		good bool
	}
	var sets []setter
	for _, b := range fn.Blocks {
		for _, in := range b.Instrs {
			ci, ok := in.(*ssa.Call)
			if !ok {
				continue
			}
			switch calleeName(ci.Common()) {
			case "reflect.(Value).SetLen":
				if len(ci.Call.Args) == 2 {
					sets = append(sets, setter{in, isCount(ci.Call.Args[1])})
				}
			case "reflect.(Value).Set":
				if len(ci.Call.Args) == 2 {
					if mk, ok := ci.Call.Args[1].(*ssa.Call); ok && calleeName(mk.Common()) == "reflect.MakeSlice" && len(mk.Call.Args) == 3 {
						sets = append(sets, setter{in, isCount(mk.Call.Args[1])})
					} else if ap, ok := ci.Call.Args[1].(*ssa.Call); ok && strings.HasPrefix(calleeName(ap.Common()), "reflect.Append") {
						sets = append(sets, setter{in, false})
					}
				}
			}
		}
	}
	if len(sets) == 0 {
		o.Got = "no reflective length change"
		return []core.Ob{o}
	}
	// from every setter that does not give the decoded count, a success return is reachable only through a good one
	goodAt := map[ssa.Instruction]bool{}
	for _, s := range sets {
		if s.good {
			goodAt[s.in] = true
		}
	}
	for _, s := range sets {
		if s.good {
			continue
		}
		if why := reachesSuccessAvoiding(fn, s.in, goodAt); why != "" {
			o.Status = core.Violated
			o.Got = "after the length change at " + c.P.Pos(s.in.Pos()) + " (not the decoded count) " + why + ": the slice keeps a length other than the number of elements decoded"
			break
		}
	}
	return []core.Ob{o}
}

// reachesSuccessAvoiding: from instruction `from`, a return whose error result may be nil is reachable
// without executing any instruction of `stop`. Returns "" if not.
func reachesSuccessAvoiding(fn *ssa.Function, from ssa.Instruction, stop map[ssa.Instruction]bool) string {
	errIdx := -1
	res := fn.Signature.Results()
	for i := res.Len() - 1; i >= 0; i-- {
		if types.Identical(res.At(i).Type(), errType) {
			errIdx = i
			break
		}
	}
	scan := func(b *ssa.BasicBlock, start int) (blocked bool, hit string) {
		for i := start; i < len(b.Instrs); i++ {
			in := b.Instrs[i]
			if stop[in] {
				return true, ""
			}
			if r, ok := in.(*ssa.Return); ok {
				if errIdx < 0 || isNilConst(r.Results[errIdx]) {
					return true, "a success return is reached"
				}
				if _, isPhi := r.Results[errIdx].(*ssa.Phi); isPhi {
					return true, "a return that may report success is reached"
				}
				if ld, isLd := r.Results[errIdx].(*ssa.UnOp); isLd && ld.Op == token.MUL {
					// named result: may be nil
					return true, "a return that may report success is reached"
				}
				return true, ""
			}
		}
		return false, ""
	}
	idx := 0
	for i, x := range from.Block().Instrs {
		if x == from {
			idx = i + 1
		}
	}
	if blocked, hit := scan(from.Block(), idx); blocked {
		return hit
	}
	seen := map[*ssa.BasicBlock]bool{}
	work := append([]*ssa.BasicBlock(nil), from.Block().Succs...)
	for len(work) > 0 {
		b := work[0]
		work = work[1:]
		if seen[b] {
			continue
		}
		seen[b] = true
		blocked, hit := scan(b, 0)
		if hit != "" {
			return hit
		}
		if blocked {
			continue
		}
		work = append(work, b.Succs...)
	}
	return ""
}

// ---------------------------------------------------------------------------
// R-ACCEPT[legit-lengths]: a bound a reader puts on a length prefix must not cut
// into what the writer legitimately produces. Decided on the interval the
// tainted-length analysis computes for the length at the place it is used (an
// over-approximation of the values that get that far): if even that stays below
// the largest legitimate length, legitimate input is refused.
//   - BitStorage.ReadFrom: the number of longs reaches calcBitStorageSize(32, 4096)
//     (a 4096-entry storage of the widest entries);
//   - the compressed-frame reader: the frame length reaches one more than the
//     largest payload length the same function accepts (the data-length field of
//     an uncompressed frame adds a byte).

func (c *Ctx) AcceptsLegitLengths() []core.Ob {
	var obs []core.Ob
	t := c.TLG()
	hiAt := func(fn *ssa.Function, pick func(in ssa.Instruction) ssa.Value) map[ssa.Instruction]*big.Int {
		out := map[ssa.Instruction]*big.Int{}
		t.Probe(fn, func(in ssa.Instruction, eval func(ssa.Value) AV, _ func(string) (AV, bool)) {
			v := pick(in)
			if v == nil {
				return
			}
			all := eval(v).all()
			if all == nil || all.Hi == nil {
				out[in] = nil // unbounded
				return
			}
			out[in] = all.Hi
		})
		return out
	}
	// (1) BitStorage.ReadFrom
	{
		o := core.Ob{Rule: "R-ACCEPT", Key: "legit-lengths:level.(*BitStorage).ReadFrom", Armed: true, Status: core.OK,
			Want: "the announced number of longs may reach what a 4096-entry storage of 32-bit entries needs"}
		fn, size := c.Fn("level.(*BitStorage).ReadFrom"), c.Fn("level.calcBitStorageSize")
		if fn == nil || size == nil {
			o.Status, o.Got = core.Violated, "level.(*BitStorage).ReadFrom or level.calcBitStorageSize not found"
		} else {
			o.Pos, o.Func = c.P.Pos(fn.Pos()), core.FnName(fn)
			ev := &skelEval{c: c, sizes: t.sizesOf(size)}
			need, err := ev.run(size, []*big.Int{bi(32), bi(4096)})
			if err != nil || need == nil {
				o.Status, o.Got = core.Violated, fmt.Sprintf("calcBitStorageSize(32, 4096) cannot be evaluated: %v", err)
			} else {
				his := hiAt(fn, func(in ssa.Instruction) ssa.Value {
					if ms, ok := in.(*ssa.MakeSlice); ok {
						return ms.Len
					}
					return nil
				})
				if len(his) == 0 {
					o.Got = "no allocation sized by the prefix in the function itself (not judged)"
				}
				for in, hi := range his {
					if hi != nil && hi.Cmp(need) < 0 {
						o.Status = core.Violated
						o.Got = fmt.Sprintf("at %s the number of longs is at most %s, but %s longs are a legitimate array (4096 entries of 32 bits): the library's own output is refused", c.P.Pos(in.Pos()), hi, need)
					} else if o.Got == "" {
						o.Got = fmt.Sprintf("need %s; bound %v", need, hi)
					}
				}
			}
		}
		obs = append(obs, o)
	}
	// (2) the compressed-frame reader
	{
		o := core.Ob{Rule: "R-ACCEPT", Key: "legit-lengths:net/packet:compressed-frame", Armed: true, Status: core.OK,
			Want: "the frame length of the compressed format may exceed the largest accepted payload length by the data-length byte"}
		var fr *ssa.Function
		root := c.Fn("net/packet.(*Packet).UnPack")
		for g := range c.Reach([]*ssa.Function{root}, pkgPred("net/packet")) {
			if len(callsIn(g, func(n string, _ *ssa.CallCommon) bool { return n == "io.CopyN" })) > 0 {
				fr = g
			}
		}
		if fr == nil {
			o.Got = "no buffered (io.CopyN) frame reader reachable from Packet.UnPack (not judged)"
		} else {
			o.Pos, o.Func = c.P.Pos(fr.Pos()), core.FnName(fr)
			frame := hiAt(fr, func(in ssa.Instruction) ssa.Value {
				if ci, ok := in.(*ssa.Call); ok && calleeName(ci.Common()) == "io.CopyN" && len(ci.Call.Args) == 3 {
					return ci.Call.Args[2]
				}
				return nil
			})
			data := hiAt(fr, func(in ssa.Instruction) ssa.Value {
				if ms, ok := in.(*ssa.MakeSlice); ok {
					if sl, ok := ms.Type().Underlying().(*types.Slice); ok && types.Identical(sl.Elem(), types.Typ[types.Byte]) {
						return ms.Len
					}
				}
				return nil
			})
			var maxData *big.Int
			for _, hi := range data {
				if hi != nil && (maxData == nil || hi.Cmp(maxData) > 0) {
					maxData = hi
				}
			}
			if maxData == nil {
				o.Got = "the payload allocation has no upper bound to compare with (not judged)"
			} else {
				need := new(big.Int).Add(maxData, bi(1))
				for in, hi := range frame {
					if hi != nil && hi.Cmp(need) < 0 {
						o.Status = core.Violated
						o.Got = fmt.Sprintf("at %s the frame length is at most %s while payloads of up to %s bytes are accepted: a frame carrying the largest payload (plus its data-length byte, plus compression overhead) is refused", c.P.Pos(in.Pos()), hi, maxData)
					} else if o.Got == "" {
						o.Got = fmt.Sprintf("payload bound %s; frame bound %v", maxData, hi)
					}
				}
			}
		}
		obs = append(obs, o)
	}
	return obs
}

// ---------------------------------------------------------------------------
// T-BSFIX[derived-fields-refreshed]: whatever scalar field of BitStorage the
// constructor computes from the width - directly, through another field, or
// through a helper - describes the current width; Fix gives the storage a new
// width, so it assigns every one of them. (The expressions are compared by
// T-BSFIX proper for the directly derived ones; this is the closure: a cached
// shift or flag that only the constructor sets goes stale at the first re-read.)

func (c *Ctx) BitStorageDerivedRefreshed() []core.Ob {
	o := core.Ob{Rule: "T-BSFIX", Key: "Fix:refreshes-every-width-derived-field", Armed: true, Status: core.OK,
		Want: "every scalar field the constructor derives from the width (transitively) is assigned by Fix as well"}
	nb, fx := c.Fn("level.NewBitStorage"), c.Fn("level.(*BitStorage).Fix")
	if nb == nil || fx == nil || len(nb.Params) == 0 {
		o.Status, o.Got = core.Violated, "functions not found"
		return []core.Ob{o}
	}
	o.Pos, o.Func = c.P.Pos(fx.Pos()), core.FnName(fx)
	isBS := func(t types.Type) bool {
		n, ok := types.Unalias(deref(t)).(*types.Named)
		return ok && n.Obj().Name() == "BitStorage" && n.Obj().Pkg() != nil && core.Rel(n.Obj().Pkg().Path()) == "level"
	}
	scalar := func(t types.Type) bool {
		_, ok := t.Underlying().(*types.Basic)
		return ok
	}
	// dependent fields, to a fixpoint; helpers of the package that are handed a width-dependent value
	// (configure(bits)) are followed with that parameter as a further root
	dep := map[string]bool{}
	roots := map[ssa.Value]bool{ssa.Value(nb.Params[0]): true}
	scanFns := []*ssa.Function{nb}
	var depends func(v ssa.Value, seen map[ssa.Value]bool) bool
	depends = func(v ssa.Value, seen map[ssa.Value]bool) bool {
		if roots[v] {
			return true
		}
		if seen[v] {
			return false
		}
		seen[v] = true
		switch x := v.(type) {
		case *ssa.UnOp:
			if fa, ok := x.X.(*ssa.FieldAddr); ok && x.Op == token.MUL && isBS(fa.X.Type()) {
				st := deref(fa.X.Type()).Underlying().(*types.Struct)
				return dep[st.Field(fa.Field).Name()]
			}
			return depends(x.X, seen)
		case *ssa.BinOp:
			return depends(x.X, seen) || depends(x.Y, seen)
		case *ssa.Convert:
			return depends(x.X, seen)
		case *ssa.ChangeType:
			return depends(x.X, seen)
		case *ssa.Extract:
			return depends(x.Tuple, seen)
		case *ssa.Call:
			for _, a := range x.Call.Args {
				if depends(a, seen) {
					return true
				}
			}
		case *ssa.Phi:
			for _, e := range x.Edges {
				if depends(e, seen) {
					return true
				}
			}
		}
		return false
	}
	for changed := true; changed; {
		changed = false
		for fi := 0; fi < len(scanFns); fi++ {
			for _, b := range scanFns[fi].Blocks {
				for _, in := range b.Instrs {
					if call, isCall := in.(*ssa.Call); isCall {
						if g := call.Call.StaticCallee(); g != nil && inPkgs(g, "level") && len(g.Blocks) > 0 && len(scanFns) < 8 {
							g = core.Origin(g)
							for ai, a := range call.Call.Args {
								if ai < len(g.Params) && depends(a, map[ssa.Value]bool{}) && !roots[g.Params[ai]] {
									hasRecv := false
									for _, a2 := range call.Call.Args {
										if isBS(a2.Type()) {
											hasRecv = true
										}
									}
									if !hasRecv {
										continue
									}
									roots[g.Params[ai]] = true
									known := false
									for _, f := range scanFns {
										known = known || f == g
									}
									if !known {
										scanFns = append(scanFns, g)
									}
									changed = true
								}
							}
						}
					}
					st, ok := in.(*ssa.Store)
					if !ok {
						continue
					}
					fa, ok := st.Addr.(*ssa.FieldAddr)
					if !ok || !isBS(fa.X.Type()) {
						continue
					}
					f := deref(fa.X.Type()).Underlying().(*types.Struct).Field(fa.Field)
					if !scalar(f.Type()) || dep[f.Name()] {
						continue
					}
					if depends(st.Val, map[ssa.Value]bool{}) {
						dep[f.Name()] = true
						changed = true
					}
				}
			}
		}
	}
	// fields Fix (and the helpers of the package it hands its receiver to) assigns
	assigned := map[string]bool{}
	var scan func(fn *ssa.Function, depth int)
	scan = func(fn *ssa.Function, depth int) {
		if depth > 2 {
			return
		}
		for _, b := range fn.Blocks {
			for _, in := range b.Instrs {
				switch x := in.(type) {
				case *ssa.Store:
					if fa, ok := x.Addr.(*ssa.FieldAddr); ok && isBS(fa.X.Type()) {
						assigned[deref(fa.X.Type()).Underlying().(*types.Struct).Field(fa.Field).Name()] = true
					}
				case *ssa.Call:
					if g := x.Call.StaticCallee(); g != nil && inPkgs(g, "level") && len(g.Blocks) > 0 {
						for _, a := range x.Call.Args {
							if isBS(a.Type()) {
								scan(core.Origin(g), depth+1)
							}
						}
					}
				}
			}
		}
	}
	scan(fx, 0)
	var names, missing []string
	for f := range dep {
		names = append(names, f)
		if !assigned[f] {
			missing = append(missing, f)
		}
	}
	sort.Strings(names)
	sort.Strings(missing)
	if len(names) < 3 {
		o.Status, o.Got = core.Violated, "fewer than three width-derived fields recognised in NewBitStorage: {"+strings.Join(names, ", ")+"}"
	} else if len(missing) > 0 {
		o.Status, o.Got = core.Violated, "NewBitStorage derives {"+strings.Join(names, ", ")+"} from the width; Fix changes the width without assigning {"+strings.Join(missing, ", ")+"}: after a re-read with another width these describe the old one"
	} else {
		o.Got = "{" + strings.Join(names, ", ") + "}"
	}
	return []core.Ob{o}
}

// ---------------------------------------------------------------------------
// T-OPTFLAG[reader]: the reader's side of an optional pointer field. Where the
// writer announces the field with `field != nil`, the reader leaves the field
// nil when the announcement says "absent": a non-nil value is stored into it
// only behind the true edge of a test of a decoded boolean (or the function
// resets it to nil somewhere). Allocating the target before the flag is read
// turns "absent" into "present and empty" - and the value is written back so.

func (c *Ctx) OptFieldsNilWhenAbsent(pkgs ...string) []core.Ob {
	var obs []core.Ob
	for _, w := range c.Funcs() {
		if !inPkgs(w, pkgs...) || w.Name() != "WriteTo" || w.Signature.Recv() == nil || len(w.Params) == 0 {
			continue
		}
		recvT := w.Signature.Recv().Type()
		// optional fields: compared with nil in the writer
		opt := map[int]bool{}
		for _, b := range w.Blocks {
			for _, in := range b.Instrs {
				cmp, ok := in.(*ssa.BinOp)
				if !ok || (cmp.Op != token.NEQ && cmp.Op != token.EQL) {
					continue
				}
				for _, pr := range [][2]ssa.Value{{cmp.X, cmp.Y}, {cmp.Y, cmp.X}} {
					ld, ok := pr[0].(*ssa.UnOp)
					if !ok || ld.Op != token.MUL || !isNilConst(pr[1]) {
						continue
					}
					if fa, ok := ld.X.(*ssa.FieldAddr); ok && fa.X == ssa.Value(w.Params[0]) {
						if _, isPtr := ld.Type().Underlying().(*types.Pointer); isPtr {
							opt[fa.Field] = true
						}
					}
				}
			}
		}
		if len(opt) == 0 {
			continue
		}
		// the sibling reader
		var r *ssa.Function
		for _, f := range c.Funcs() {
			if f.Name() == "ReadFrom" && f.Signature.Recv() != nil && types.Identical(deref(f.Signature.Recv().Type()), deref(recvT)) && core.FnPkg(f) == core.FnPkg(w) {
				r = f
			}
		}
		if r == nil || len(r.Params) == 0 {
			continue
		}
		st := deref(recvT).Underlying().(*types.Struct)
		for fi := range opt {
			o := core.Ob{Rule: "T-OPTFLAG", Key: fmt.Sprintf("%s:reader-leaves-%s-nil-when-absent", core.FnName(r), st.Field(fi).Name()), Pos: c.P.Pos(r.Pos()), Func: core.FnName(r), Armed: true, Status: core.OK,
				Want: "the reader gives " + st.Field(fi).Name() + " a value only where a decoded flag was found true (the writer announces it with `" + st.Field(fi).Name() + " != nil`)"}
			resets := false
			var bad *ssa.Store
			for _, b := range r.Blocks {
				for _, in := range b.Instrs {
					s, ok := in.(*ssa.Store)
					if !ok {
						continue
					}
					fa, ok := s.Addr.(*ssa.FieldAddr)
					if !ok || fa.X != ssa.Value(r.Params[0]) || fa.Field != fi {
						continue
					}
					if isNilConst(s.Val) {
						resets = true
						continue
					}
					// behind the true edge of a test of a boolean local
					guarded := false
					for _, d := range r.Blocks {
						if len(d.Instrs) == 0 || len(d.Succs) != 2 {
							continue
						}
						iff, ok := d.Instrs[len(d.Instrs)-1].(*ssa.If)
						if !ok {
							continue
						}
						cond := stripConv(iff.Cond)
						ld, ok := cond.(*ssa.UnOp)
						if !ok || ld.Op != token.MUL {
							continue
						}
						if _, isLocal := ld.X.(*ssa.Alloc); !isLocal {
							continue
						}
						if bt, ok := ld.Type().Underlying().(*types.Basic); !ok || bt.Kind() != types.Bool {
							continue
						}
						t := d.Succs[0]
						if len(t.Preds) == 1 && (t == b || t.Dominates(b)) {
							guarded = true
						}
					}
					if !guarded {
						bad = s
					}
				}
			}
			if bad != nil && !resets {
				o.Status, o.Pos = core.Violated, c.P.Pos(bad.Pos())
				o.Got = st.Field(fi).Name() + " is given a non-nil value on a path that does not depend on the decoded presence flag, and is never reset: an absent value decodes as present and empty"
			}
			obs = append(obs, o)
		}
	}
	return obs
}

// ---------------------------------------------------------------------------
// R-ACCEPT[palette-size]: a bound the reader of an indirect palette puts on the
// announced number of entries, computed from the index width, must let a full
// palette through: 1<<bits entries are what a width of `bits` addresses and
// what the container's own writer emits just before it widens. Every comparison
// of the decoded size with an expression over one integer quantity w (a field
// of the receiver or a parameter) and constants, whose one edge fails, is
// evaluated for w = 1..8 with size = 1<<w.

func (c *Ctx) PaletteSizeBound(pkg string) []core.Ob {
	var obs []core.Ob
	isVarIntLoad := func(v ssa.Value) bool {
		ld, ok := v.(*ssa.UnOp)
		if !ok || ld.Op != token.MUL {
			return false
		}
		al, ok := ld.X.(*ssa.Alloc)
		if !ok {
			return false
		}
		n, ok := types.Unalias(deref(al.Type())).(*types.Named)
		return ok && n.Obj().Name() == "VarInt"
	}
	for _, fn := range c.Funcs() {
		if !inPkgs(fn, pkg) {
			continue
		}
		isWidthLeaf := func(v ssa.Value) bool {
			switch x := v.(type) {
			case *ssa.Parameter:
				bt, ok := x.Type().Underlying().(*types.Basic)
				return ok && bt.Info()&types.IsInteger != 0
			case *ssa.UnOp:
				if fa, ok := x.X.(*ssa.FieldAddr); ok && x.Op == token.MUL && len(fn.Params) > 0 && fa.X == ssa.Value(fn.Params[0]) {
					bt, ok := x.Type().Underlying().(*types.Basic)
					return ok && bt.Info()&types.IsInteger != 0
				}
			}
			return false
		}
		// what an operand is made of: the decoded size, one width quantity, constants, arithmetic, bits.Len
		type parts struct {
			size, other bool
			widths      map[string]bool
		}
		var collect func(v ssa.Value, p *parts, d int)
		collect = func(v ssa.Value, p *parts, d int) {
			if d > 8 {
				p.other = true
				return
			}
			switch {
			case isVarIntLoad(v):
				p.size = true
				return
			case isWidthLeaf(v):
				p.widths[addrKeyOf(v)] = true
				return
			}
			switch x := v.(type) {
			case *ssa.Const:
			case *ssa.Convert:
				collect(x.X, p, d+1)
			case *ssa.ChangeType:
				collect(x.X, p, d+1)
			case *ssa.BinOp:
				collect(x.X, p, d+1)
				collect(x.Y, p, d+1)
			case *ssa.Call:
				if strings.HasPrefix(calleeName(x.Common()), "math/bits.Len") && len(x.Call.Args) == 1 {
					collect(x.Call.Args[0], p, d+1)
				} else {
					p.other = true
				}
			default:
				p.other = true
			}
		}
		var eval func(v ssa.Value, w int64) *big.Int
		eval = func(v ssa.Value, w int64) *big.Int {
			switch {
			case isVarIntLoad(v):
				return new(big.Int).Lsh(bi(1), uint(w))
			case isWidthLeaf(v):
				return bi(w)
			}
			switch x := v.(type) {
			case *ssa.Const:
				if n, ok := constInt(x); ok {
					return n
				}
			case *ssa.Convert:
				return eval(x.X, w)
			case *ssa.ChangeType:
				return eval(x.X, w)
			case *ssa.Call:
				if a := eval(x.Call.Args[0], w); a != nil && a.Sign() >= 0 {
					return bi(int64(a.BitLen()))
				}
			case *ssa.BinOp:
				l, r := eval(x.X, w), eval(x.Y, w)
				if l == nil || r == nil {
					return nil
				}
				switch x.Op {
				case token.ADD:
					return new(big.Int).Add(l, r)
				case token.SUB:
					return new(big.Int).Sub(l, r)
				case token.MUL:
					return new(big.Int).Mul(l, r)
				case token.SHL:
					if r.IsInt64() && r.Int64() >= 0 && r.Int64() < 64 {
						return new(big.Int).Lsh(l, uint(r.Int64()))
					}
				case token.SHR:
					if r.IsInt64() && r.Int64() >= 0 && r.Int64() < 64 {
						return new(big.Int).Rsh(l, uint(r.Int64()))
					}
				}
			}
			return nil
		}
		k := 0
		for _, b := range fn.Blocks {
			if len(b.Instrs) == 0 || len(b.Succs) != 2 {
				continue
			}
			iff, ok := b.Instrs[len(b.Instrs)-1].(*ssa.If)
			if !ok {
				continue
			}
			cmp, ok := iff.Cond.(*ssa.BinOp)
			if !ok {
				continue
			}
			px, py := &parts{widths: map[string]bool{}}, &parts{widths: map[string]bool{}}
			collect(cmp.X, px, 0)
			collect(cmp.Y, py, 0)
			if px.other || py.other || !(px.size || py.size) || len(px.widths)+len(py.widths) != 1 {
				continue
			}
			// which edge fails
			failEdge := -1
			for i, s := range b.Succs {
				if len(s.Preds) == 1 && simpleErrorBlock(s) {
					failEdge = i
				}
			}
			if failEdge < 0 {
				continue
			}
			k++
			o := core.Ob{Rule: "R-ACCEPT", Key: fmt.Sprintf("palette-size:%s#%d", core.FnName(fn), k), Pos: c.P.Pos(cmp.Pos()), Func: core.FnName(fn), Armed: true, Status: core.OK,
				Want: "a palette of exactly 1<<w entries passes a size bound computed from the index width w"}
			for w := int64(1); w <= 8; w++ {
				l, r := eval(cmp.X, w), eval(cmp.Y, w)
				if l == nil || r == nil {
					o.Got = "the bound is not an arithmetic expression of the width (not judged)"
					break
				}
				var holds bool
				switch cmp.Op {
				case token.LSS:
					holds = l.Cmp(r) < 0
				case token.LEQ:
					holds = l.Cmp(r) <= 0
				case token.GTR:
					holds = l.Cmp(r) > 0
				case token.GEQ:
					holds = l.Cmp(r) >= 0
				case token.EQL:
					holds = l.Cmp(r) == 0
				case token.NEQ:
					holds = l.Cmp(r) != 0
				default:
					continue
				}
				taken := 1
				if holds {
					taken = 0
				}
				if taken == failEdge {
					size := new(big.Int).Lsh(bi(1), uint(w))
					o.Status = core.Violated
					o.Got = fmt.Sprintf("for a width of %d bits and %s entries the test compares %s with %s and fails: a full palette (what the writer emits for %s distinct values) is refused", w, size, l, r, size)
					break
				}
			}
			obs = append(obs, o)
		}
	}
	return obs
}

// addrKeyOf: a name for a width quantity (the parameter, or the receiver field it is loaded from).
func addrKeyOf(v ssa.Value) string {
	switch x := v.(type) {
	case *ssa.Parameter:
		return "param:" + x.Name()
	case *ssa.UnOp:
		if fa, ok := x.X.(*ssa.FieldAddr); ok {
			return fmt.Sprintf("field:%d", fa.Field)
		}
	}
	return v.Name()
}

// ---------------------------------------------------------------------------
// R-RING: the shift register of the CFB8 stream lives in a buffer of three
// blocks, as the window [pos, pos+blockSize) with pos in [0, 2*blockSize]; when
// pos has reached 2*blockSize the window is copied back to the front.
//
//  [advance-behind-wrap-test] a store that advances the position field (any
//  value other than a constant) lies behind the "not yet at 2*blockSize" edge of
//  a comparison of the position with 2*blockSize. Reducing the position modulo
//  2*blockSize instead maps the legal state 2*blockSize to 0, where stale bytes
//  are.
//
//  [scratch-after-register] code that uses the buffer as scratch space for the
//  block cipher (an Encrypt destination inside the buffer that is not placed
//  relative to the position) runs only when the register is not needed any
//  more: no use of the window (a slice of the buffer starting at the position,
//  directly or in a callee) is reachable after it.

func (c *Ctx) CFB8Ring(pkg string) []core.Ob {
	var obs []core.Ob
	// the stream type: the struct of the package with a cipher.Block field; its []byte field is the
	// buffer, the int field stored with 0 and pos+1 the position, the other int the block size
	var st *types.Struct
	var named *types.Named
	for _, pk := range c.P.Pkgs {
		if core.Rel(pk.PkgPath) != pkg {
			continue
		}
		for _, nm := range pk.Types.Scope().Names() {
			tn, ok := pk.Types.Scope().Lookup(nm).(*types.TypeName)
			if !ok {
				continue
			}
			s, ok := tn.Type().Underlying().(*types.Struct)
			if !ok {
				continue
			}
			for i := 0; i < s.NumFields(); i++ {
				if types.TypeString(s.Field(i).Type(), nil) == "crypto/cipher.Block" {
					st, named = s, tn.Type().(*types.Named)
				}
			}
		}
	}
	if st == nil {
		return []core.Ob{{Rule: "R-RING", Key: "anchor", Armed: true, Status: core.Violated, Want: "the stream type of " + pkg + " (a struct holding a cipher.Block) exists", Got: "not found"}}
	}
	bufF := -1
	for i := 0; i < st.NumFields(); i++ {
		if sl, ok := st.Field(i).Type().Underlying().(*types.Slice); ok && types.Identical(sl.Elem(), types.Typ[types.Byte]) {
			bufF = i
		}
	}
	isStream := func(t types.Type) bool {
		n, ok := types.Unalias(deref(t)).(*types.Named)
		return ok && n.Obj() == named.Obj()
	}
	fieldLoad := func(v ssa.Value) int {
		ld, ok := stripConv(v).(*ssa.UnOp)
		if !ok || ld.Op != token.MUL {
			return -1
		}
		fa, ok := ld.X.(*ssa.FieldAddr)
		if !ok || !isStream(fa.X.Type()) {
			return -1
		}
		return fa.Field
	}
	// the position field: the int field that some method stores a non-constant into
	posF := -1
	var fns []*ssa.Function
	for _, fn := range c.Funcs() {
		if inPkgs(fn, pkg) {
			fns = append(fns, fn)
		}
	}
	for _, fn := range fns {
		for _, b := range fn.Blocks {
			for _, in := range b.Instrs {
				if s, ok := in.(*ssa.Store); ok {
					if fa, ok := s.Addr.(*ssa.FieldAddr); ok && isStream(fa.X.Type()) && types.Identical(st.Field(fa.Field).Type(), types.Typ[types.Int]) {
						if _, isK := s.Val.(*ssa.Const); !isK {
							if _, isCall := s.Val.(*ssa.Call); !isCall { // blockSize: c.BlockSize()
								posF = fa.Field
							}
						}
					}
				}
			}
		}
	}
	if posF < 0 || bufF < 0 {
		return []core.Ob{{Rule: "R-RING", Key: "anchor", Armed: true, Status: core.Violated, Want: "the buffer and position fields of the stream are recognised", Got: "not found"}}
	}
	// derives from the position field (through arithmetic)
	var fromPos func(v ssa.Value, d int) bool
	fromPos = func(v ssa.Value, d int) bool {
		if d > 8 || v == nil {
			return false
		}
		v = stripConv(v)
		if fieldLoad(v) == posF {
			return true
		}
		switch x := v.(type) {
		case *ssa.BinOp:
			return fromPos(x.X, d+1) || fromPos(x.Y, d+1)
		case *ssa.Phi:
			for _, e := range x.Edges {
				if fromPos(e, d+1) {
					return true
				}
			}
		}
		return false
	}
	// twice the block size: blockSize<<1, blockSize*2, 2*blockSize (a load of an int field other than the position)
	isTwice := func(v ssa.Value) bool {
		bo, ok := stripConv(v).(*ssa.BinOp)
		if !ok {
			return false
		}
		isBS := func(x ssa.Value) bool { f := fieldLoad(x); return f >= 0 && f != posF }
		switch bo.Op {
		case token.SHL:
			k, ok := constIntVal(bo.Y)
			return ok && k == 1 && isBS(bo.X)
		case token.MUL:
			if k, ok := constIntVal(bo.Y); ok && k == 2 && isBS(bo.X) {
				return true
			}
			if k, ok := constIntVal(bo.X); ok && k == 2 && isBS(bo.Y) {
				return true
			}
		case token.ADD:
			return isBS(bo.X) && isBS(bo.Y)
		}
		return false
	}
	// (1)
	for _, fn := range fns {
		k := 0
		for _, b := range fn.Blocks {
			for _, in := range b.Instrs {
				s, ok := in.(*ssa.Store)
				if !ok {
					continue
				}
				fa, ok := s.Addr.(*ssa.FieldAddr)
				if !ok || !isStream(fa.X.Type()) || fa.Field != posF {
					continue
				}
				if _, isK := s.Val.(*ssa.Const); isK {
					continue
				}
				k++
				o := core.Ob{Rule: "R-RING", Key: fmt.Sprintf("advance-behind-wrap-test:%s#%d", core.FnName(fn), k), Pos: c.P.Pos(s.Pos()), Func: core.FnName(fn), Armed: true, Status: core.OK,
					Want: "the position is advanced only where it was compared with twice the block size and found different (at twice the block size the window is moved to the front instead)"}
				guarded := false
				for _, d := range fn.Blocks {
					if len(d.Succs) != 2 {
						continue
					}
					iff, ok := d.Instrs[len(d.Instrs)-1].(*ssa.If)
					if !ok {
						continue
					}
					cmp, ok := iff.Cond.(*ssa.BinOp)
					if !ok || (cmp.Op != token.EQL && cmp.Op != token.NEQ && cmp.Op != token.LSS && cmp.Op != token.GEQ) {
						continue
					}
					if !(fieldLoad(cmp.X) == posF && isTwice(cmp.Y)) {
						continue
					}
					ne := d.Succs[1] // EQL, GEQ: the other edge
					if cmp.Op == token.NEQ || cmp.Op == token.LSS {
						ne = d.Succs[0]
					}
					if len(ne.Preds) == 1 && (ne == b || ne.Dominates(b)) {
						guarded = true
					}
				}
				if !guarded {
					o.Status, o.Got = core.Violated, "the position is advanced without the test for the end of the ring: in the state position = 2*blockSize the window is taken from the wrong place"
				}
				obs = append(obs, o)
			}
		}
	}
	// (2)
	usesWindow := map[*ssa.Function]bool{}
	for _, fn := range fns {
		for _, b := range fn.Blocks {
			for _, in := range b.Instrs {
				if sl, ok := in.(*ssa.Slice); ok && fieldLoad(sl.X) == bufF && fromPos(sl.Low, 0) {
					usesWindow[core.Origin(fn)] = true
				}
			}
		}
	}
	for _, fn := range fns {
		var scratch, uses []ssa.Instruction
		for _, b := range fn.Blocks {
			for _, in := range b.Instrs {
				switch x := in.(type) {
				case *ssa.Slice:
					if fieldLoad(x.X) == bufF && fromPos(x.Low, 0) {
						uses = append(uses, in)
					}
				case ssa.CallInstruction:
					if g := x.Common().StaticCallee(); g != nil && usesWindow[core.Origin(g)] {
						uses = append(uses, in)
					}
					if x.Common().IsInvoke() && x.Common().Method.Name() == "Encrypt" && len(x.Common().Args) == 2 {
						// destination inside the buffer, not placed relative to the position
						dst := x.Common().Args[0]
						inBuf, rel := false, false
						seen := map[ssa.Value]bool{}
						var walk func(v ssa.Value)
						walk = func(v ssa.Value) {
							if seen[v] {
								return
							}
							seen[v] = true
							if fieldLoad(v) == bufF {
								inBuf = true
								return
							}
							switch y := v.(type) {
							case *ssa.Slice:
								if fromPos(y.Low, 0) {
									rel = true
								}
								walk(y.X)
							case *ssa.Phi:
								for _, e := range y.Edges {
									walk(e)
								}
							}
						}
						walk(dst)
						if inBuf && !rel {
							scratch = append(scratch, in)
						}
					}
				}
			}
		}
		for i, s := range scratch {
			o := core.Ob{Rule: "R-RING", Key: fmt.Sprintf("scratch-after-register:%s#%d", core.FnName(fn), i+1), Pos: c.P.Pos(s.Pos()), Func: core.FnName(fn), Armed: true, Status: core.OK,
				Want: "the register buffer is used as scratch space only when no use of the register window can follow"}
			for _, u := range uses {
				if instrReaches(s, u, nil) {
					o.Status = core.Violated
					o.Got = "the buffer is overwritten as scratch space and the register window is still used afterwards at " + c.P.Pos(u.Pos()) + ": with the position past the first block the live register is destroyed"
				}
			}
			obs = append(obs, o)
		}
	}
	return obs
}

// ---------------------------------------------------------------------------
// T-SNBT[bare-string]: the text writer may leave a string unquoted only if the
// text reads back as that string. Per-byte "allowed in an unquoted string" is
// not enough: the empty string has no unquoted form at all, and "123", "1b",
// "-7", "1.5east" are made of allowed bytes but are read back as numbers (or
// cut short). Necessary conditions, in the function that tests the bytes and
// writes the string parameter itself:
//   [empty-decided]        some branch on the emptiness of the string (s == "",
//                          len(s) == 0) separates the bare write from a path
//                          that avoids it;
//   [number-like-decided]  some branch on the first byte (s[k] for a constant k)
//                          or on a classification of the whole string (a call
//                          taking s) does.

func (c *Ctx) SNBTBareStrings(pkg string) []core.Ob {
	var obs []core.Ob
	for _, fn := range c.Funcs() {
		if !inPkgs(fn, pkg) {
			continue
		}
		for _, sp := range fn.Params {
			if bt, ok := sp.Type().Underlying().(*types.Basic); !ok || bt.Kind() != types.String {
				continue
			}
			// the bare writes of this parameter
			var bare []ssa.Instruction
			for _, ci := range callsIn(fn, func(n string, _ *ssa.CallCommon) bool { return n == "strings.(Builder).WriteString" }) {
				if args := ci.Common().Args; len(args) == 2 && args[1] == ssa.Value(sp) {
					bare = append(bare, ci)
				}
			}
			if len(bare) == 0 {
				continue
			}
			// ... in a function that judges the bytes of the same string with a predicate of the package
			fromStr := func(v ssa.Value) bool {
				for d := 0; d < 6 && v != nil; d++ {
					switch x := v.(type) {
					case *ssa.Parameter:
						return x == sp
					case *ssa.Convert:
						v = x.X
					case *ssa.Index:
						v = x.X
					case *ssa.Lookup:
						v = x.X
					case *ssa.UnOp:
						v = x.X
					case *ssa.IndexAddr:
						v = x.X
					case *ssa.Extract:
						v = x.Tuple
					case *ssa.Next:
						v = x.Iter
					case *ssa.Range:
						v = x.X
					default:
						return false
					}
				}
				return false
			}
			judges := false
			for _, ci := range callsIn(fn, func(_ string, cc *ssa.CallCommon) bool {
				g := cc.StaticCallee()
				if g == nil || !inPkgs(g, pkg) || g.Signature.Params().Len() != 1 || g.Signature.Results().Len() != 1 {
					return false
				}
				pb, ok1 := g.Signature.Params().At(0).Type().Underlying().(*types.Basic)
				rb, ok2 := g.Signature.Results().At(0).Type().Underlying().(*types.Basic)
				return ok1 && ok2 && (pb.Kind() == types.Uint8 || pb.Kind() == types.Int32) && rb.Kind() == types.Bool
			}) {
				if fromStr(ci.Common().Args[0]) {
					judges = true
				}
			}
			if !judges {
				continue
			}
			reach := func(from *ssa.BasicBlock) bool {
				seen := map[*ssa.BasicBlock]bool{}
				work := []*ssa.BasicBlock{from}
				for len(work) > 0 {
					b := work[0]
					work = work[1:]
					if seen[b] {
						continue
					}
					seen[b] = true
					for _, w := range bare {
						if w.Block() == b {
							return true
						}
					}
					work = append(work, b.Succs...)
				}
				return false
			}
			// what a condition derives from (through short-circuit phis: the conditions that select the phi's edge)
			var derives func(v ssa.Value, src func(ssa.Value) bool, seen map[ssa.Value]bool) bool
			derives = func(v ssa.Value, src func(ssa.Value) bool, seen map[ssa.Value]bool) bool {
				if v == nil || seen[v] {
					return false
				}
				seen[v] = true
				if src(v) {
					return true
				}
				switch x := v.(type) {
				case *ssa.BinOp:
					return derives(x.X, src, seen) || derives(x.Y, src, seen)
				case *ssa.UnOp:
					return derives(x.X, src, seen)
				case *ssa.Convert:
					return derives(x.X, src, seen)
				case *ssa.Phi:
					for _, e := range x.Edges {
						if derives(e, src, seen) {
							return true
						}
					}
					idom := x.Block().Idom()
					for _, d := range fn.Blocks {
						if len(d.Succs) != 2 || idom == nil || !(d == idom || idom.Dominates(d)) {
							continue
						}
						sel := false
						for _, p := range x.Block().Preds {
							if d == p || d.Dominates(p) {
								sel = true
							}
						}
						if !sel {
							continue
						}
						if iff, ok := d.Instrs[len(d.Instrs)-1].(*ssa.If); ok && derives(iff.Cond, src, seen) {
							return true
						}
					}
				}
				return false
			}
			decided := func(src func(ssa.Value) bool) bool {
				for _, d := range fn.Blocks {
					if len(d.Succs) != 2 {
						continue
					}
					iff, ok := d.Instrs[len(d.Instrs)-1].(*ssa.If)
					if !ok || !derives(iff.Cond, src, map[ssa.Value]bool{}) {
						continue
					}
					if reach(d.Succs[0]) != reach(d.Succs[1]) {
						return true
					}
				}
				return false
			}
			isEmptyTest := func(v ssa.Value) bool {
				cmp, ok := v.(*ssa.BinOp)
				if !ok {
					return false
				}
				for _, pr := range [][2]ssa.Value{{cmp.X, cmp.Y}, {cmp.Y, cmp.X}} {
					if pr[0] == ssa.Value(sp) {
						if k, ok := pr[1].(*ssa.Const); ok && k.Value != nil && k.Value.Kind() == constant.String && constant.StringVal(k.Value) == "" {
							return true
						}
					}
					if lc, ok := pr[0].(*ssa.Call); ok {
						if bi, isB := lc.Call.Value.(*ssa.Builtin); isB && bi.Name() == "len" && len(lc.Call.Args) == 1 && lc.Call.Args[0] == ssa.Value(sp) {
							if k, ok := constIntVal(pr[1]); ok && (k == 0 || k == 1) {
								return true
							}
						}
					}
				}
				return false
			}
			isClassTest := func(v ssa.Value) bool {
				switch x := v.(type) {
				case *ssa.Index:
					_, isK := constIntVal(x.Index)
					return x.X == ssa.Value(sp) && isK
				case *ssa.Call:
					if _, isB := x.Call.Value.(*ssa.Builtin); isB {
						return false
					}
					n := calleeName(x.Common())
					if n == "strings.Count" || n == "strings.Contains" || n == "strings.ContainsAny" || n == "strings.ContainsRune" || n == "strings.IndexByte" {
						return false // looks for quotes to escape, not at what the text would be read as
					}
					for _, a := range x.Call.Args {
						if a == ssa.Value(sp) {
							return true
						}
						if cv, ok := a.(*ssa.Convert); ok && cv.X == ssa.Value(sp) {
							return true
						}
					}
				}
				return false
			}
			pos := c.P.Pos(bare[0].Pos())
			e := core.Ob{Rule: "T-SNBT", Key: "bare-string:" + core.FnName(fn) + ":empty-decided", Pos: pos, Func: core.FnName(fn), Armed: true, Status: core.OK,
				Want: "whether the string is written bare depends on a test of its emptiness (the empty string has no unquoted form)"}
			if !decided(isEmptyTest) {
				e.Status, e.Got = core.Violated, "no branch on the emptiness of the string separates the bare write from the quoted one: an empty string (value or tag name) is written as nothing, which does not parse"
			}
			n := core.Ob{Rule: "T-SNBT", Key: "bare-string:" + core.FnName(fn) + ":number-like-decided", Pos: pos, Func: core.FnName(fn), Armed: true, Status: core.OK,
				Want: "whether the string is written bare depends on how it starts or on what it would be read as (strings that look like numbers are quoted)"}
			if !decided(isClassTest) {
				n.Status, n.Got = core.Violated, "only the per-byte test decides: \"123\", \"1b\", \"-7\" or \"1.5east\" consist of allowed bytes, are written bare and read back as numbers (TagString becomes TagInt/TagByte/TagDouble)"
			}
			obs = append(obs, e, n)
		}
	}
	return obs
}

// ---------------------------------------------------------------------------
// R-SIBLING[list-element-tag]: an NBT list announces one element tag in its
// header. Where the encoder picks the tag of every element separately (the
// elements are interface values), each element's tag is the header's tag value
// itself or is compared with it (and a mismatch refused) before the element is
// written. Otherwise a []any{[]int32{1}, []int64{2}} is written as a list of
// int arrays whose second element has the layout of a long array.

func (c *Ctx) ListElementTag(pkg string) []core.Ob {
	var obs []core.Ob
	for _, fn := range c.Funcs() {
		if !inPkgs(fn, pkg) {
			continue
		}
		// the header writer: a call of a function of the package whose last two arguments are a byte
		// (the element tag) and the Len() of a reflect.Value
		var header *ssa.Call
		for _, b := range fn.Blocks {
			for _, in := range b.Instrs {
				ci, ok := in.(*ssa.Call)
				if !ok {
					continue
				}
				g := ci.Call.StaticCallee()
				if g == nil || core.FnPkg(g) != core.FnPkg(fn) || core.Origin(g) == fn {
					continue
				}
				args := ci.Call.Args
				if len(args) < 2 {
					continue
				}
				a0, a1 := args[len(args)-2], args[len(args)-1]
				b0, ok0 := a0.Type().Underlying().(*types.Basic)
				b1, ok1 := a1.Type().Underlying().(*types.Basic)
				if ok0 && ok1 && b0.Kind() == types.Uint8 && b1.Kind() == types.Int {
					if lc, ok := a1.(*ssa.Call); ok && calleeName(lc.Common()) == "reflect.(Value).Len" {
						header = ci
					}
				}
			}
		}
		if header == nil {
			continue
		}
		o := core.Ob{Rule: "R-SIBLING", Key: "list-element-tag:" + core.FnName(fn), Pos: c.P.Pos(header.Pos()), Func: core.FnName(fn), Armed: true, Status: core.OK,
			Want: "inside the element loop behind the list header, the tag an element is written with is the tag written into the header, or is compared with it first"}
		hargs := header.Call.Args
		headerTag := hargs[len(hargs)-2]
		// element writes inside loops: calls of an encoder of the package taking (.., reflect.Value, tag byte)
		n := 0
		for _, lp := range naturalLoops(fn) {
			if !header.Block().Dominates(lp.header) {
				continue
			}
			for b := range lp.body {
				for _, in := range b.Instrs {
					ci, ok := in.(*ssa.Call)
					if !ok || ci.Call.StaticCallee() == nil || core.FnPkg(ci.Call.StaticCallee()) != core.FnPkg(fn) {
						continue
					}
					args := ci.Call.Args
					if len(args) < 2 {
						continue
					}
					tag := args[len(args)-1]
					if bt, ok := tag.Type().Underlying().(*types.Basic); !ok || bt.Kind() != types.Uint8 {
						continue
					}
					if types.TypeString(args[len(args)-2].Type(), nil) != "reflect.Value" {
						continue
					}
					n++
					if tag == headerTag {
						continue
					}
					compared := false
					for _, d := range fn.Blocks {
						if len(d.Succs) != 2 || !(d == b || d.Dominates(b)) || !lp.body[d] {
							continue
						}
						iff, ok := d.Instrs[len(d.Instrs)-1].(*ssa.If)
						if !ok {
							continue
						}
						cmp, ok := iff.Cond.(*ssa.BinOp)
						if !ok || (cmp.Op != token.EQL && cmp.Op != token.NEQ) {
							continue
						}
						if (cmp.X == tag && cmp.Y == headerTag) || (cmp.Y == tag && cmp.X == headerTag) {
							compared = true
						}
					}
					if !compared {
						o.Status, o.Pos = core.Violated, c.P.Pos(ci.Pos())
						o.Got = "the element is written with a tag computed for that element alone and never compared with the tag in the list header: a slice of interface values of differing types yields a list whose elements have different layouts"
					}
				}
			}
		}
		if n == 0 {
			continue // a header without an element loop in the same function: nothing to compare here
		}
		obs = append(obs, o)
	}
	if len(obs) == 0 {
		obs = append(obs, core.Ob{Rule: "R-SIBLING", Key: "list-element-tag:anchor", Armed: true, Status: core.Violated,
			Want: "the encoder of " + pkg + " writes a list header (element tag, Len()) followed by a loop over the elements", Got: "not found"})
	}
	return obs
}

// ---------------------------------------------------------------------------
// R-LENPREFIX[payload-on-every-path]: in the encoder, bytes handed to the
// writer right after a length was written are built on every path: the slice
// is not the nil constant along any edge of the control flow that reaches the
// write (a kind switch without a matching arm leaves it nil: the length says n,
// nothing follows).

func (c *Ctx) PayloadOnEveryPath(pkg string) []core.Ob {
	var obs []core.Ob
	for _, fn := range c.Funcs() {
		if inPkgs(fn, pkg) {
			obs = append(obs, c.payloadOnEveryPath(fn)...)
		}
	}
	return obs
}

func (c *Ctx) payloadOnEveryPath(fn *ssa.Function) []core.Ob {
	var obs []core.Ob
	fnName := core.FnName(fn)
	k := 0
	for _, b := range fn.Blocks {
		for _, in := range b.Instrs {
			ci, ok := in.(*ssa.Call)
			if !ok || !ci.Call.IsInvoke() || ci.Call.Method.Name() != "Write" || len(ci.Call.Args) != 1 {
				continue
			}
			phi, ok := ci.Call.Args[0].(*ssa.Phi)
			if !ok {
				continue
			}
			k++
			o := core.Ob{Rule: "R-LENPREFIX", Key: fmt.Sprintf("payload-on-every-path:%s#%d", fnName, k), Pos: c.P.Pos(ci.Pos()), Func: core.FnName(fn), Armed: true, Status: core.OK,
				Want: "the payload written after its length has been built on every path that reaches the write"}
			// (a length taken from the payload itself - len(data) - is consistent with a nil payload)
			selfLen := false
			if phi.Referrers() != nil {
				for _, r := range *phi.Referrers() {
					if lc, ok := r.(*ssa.Call); ok {
						if bi, isB := lc.Call.Value.(*ssa.Builtin); isB && bi.Name() == "len" {
							selfLen = true
						}
					}
				}
			}
			_ = selfLen // (a length taken from the payload keeps the document well-formed, but the value is still dropped)
			seen := map[ssa.Value]bool{}
			var nilEdge func(v ssa.Value) bool
			nilEdge = func(v ssa.Value) bool {
				if seen[v] {
					return false
				}
				seen[v] = true
				switch x := v.(type) {
				case *ssa.Const:
					return x.IsNil()
				case *ssa.Phi:
					for _, e := range x.Edges {
						if nilEdge(e) {
							return true
						}
					}
				}
				return false
			}
			if nilEdge(phi) {
				o.Status, o.Got = core.Violated, "on some path the payload is still the nil slice when it is written: the value is dropped (a length of n followed by no bytes, or an empty string for a value that has one)"
			}
			obs = append(obs, o)
		}
	}
	return obs
}

// ---------------------------------------------------------------------------
// R-REFLKIND[zero-value]: reflect.Value.Elem() of a nil interface is the zero
// Value; Type() panics on it. A Value obtained by unwrapping interfaces without
// an IsNil test is asked for its Type only where a test of its kind has
// succeeded (a case of a kind switch, IsValid): not in a default arm.

func (c *Ctx) ZeroValueType(pkg string) []core.Ob {
	var obs []core.Ob
	for _, fn := range c.Funcs() {
		if !inPkgs(fn, pkg) {
			continue
		}
		// Elem() results that may be the zero Value: the receiver was not found non-nil
		mayZero := map[ssa.Value]bool{}
		for _, b := range fn.Blocks {
			for _, in := range b.Instrs {
				ci, ok := in.(*ssa.Call)
				if !ok || calleeName(ci.Common()) != "reflect.(Value).Elem" {
					continue
				}
				recv := ci.Call.Args[0]
				guarded := false
				// only the unwrapping of interfaces: the call sits behind `recv.Kind() == reflect.Interface`
				// (Elem of a pointer is a different matter: nil pointers are replaced before)
				isIface := false
				for _, d := range fn.Blocks {
					if len(d.Succs) != 2 || !d.Dominates(b) {
						continue
					}
					iff, ok := d.Instrs[len(d.Instrs)-1].(*ssa.If)
					if !ok {
						continue
					}
					if cmp, ok := iff.Cond.(*ssa.BinOp); ok && cmp.Op == token.EQL {
						kc, isCall := cmp.X.(*ssa.Call)
						kv, isK := constIntVal(cmp.Y)
						if isCall && isK && kv == int64(reflect.Interface) && calleeName(kc.Common()) == "reflect.(Value).Kind" && sameReflectValue(kc.Call.Args[0], recv) {
							if t := d.Succs[0]; t == b || t.Dominates(b) {
								isIface = true
							}
						}
					}
				}
				if !isIface {
					continue
				}
				for _, d := range fn.Blocks {
					if len(d.Succs) != 2 || !(d.Dominates(b)) {
						continue
					}
					iff, ok := d.Instrs[len(d.Instrs)-1].(*ssa.If)
					if !ok {
						continue
					}
					// !recv.IsNil() on the edge taken, possibly as the second half of `a && !recv.IsNil()`
					cond := iff.Cond
					neg := false
					if u, ok := cond.(*ssa.UnOp); ok && u.Op == token.NOT {
						cond, neg = u.X, true
					}
					if nc, ok := cond.(*ssa.Call); ok && calleeName(nc.Common()) == "reflect.(Value).IsNil" && sameReflectValue(nc.Call.Args[0], recv) {
						edge := d.Succs[1] // IsNil false
						if neg {
							edge = d.Succs[0]
						}
						if len(edge.Preds) == 1 && (edge == b || edge.Dominates(b)) {
							guarded = true
						}
					}
				}
				if !guarded {
					mayZero[ci] = true
				}
			}
		}
		if len(mayZero) == 0 {
			continue
		}
		derives := func(v ssa.Value) bool {
			seen := map[ssa.Value]bool{}
			var walk func(v ssa.Value) bool
			walk = func(v ssa.Value) bool {
				if seen[v] {
					return false
				}
				seen[v] = true
				if mayZero[v] {
					return true
				}
				if phi, ok := v.(*ssa.Phi); ok {
					for _, e := range phi.Edges {
						if walk(e) {
							return true
						}
					}
				}
				return false
			}
			return walk(v)
		}
		k := 0
		for _, b := range fn.Blocks {
			for _, in := range b.Instrs {
				ci, ok := in.(*ssa.Call)
				if !ok || calleeName(ci.Common()) != "reflect.(Value).Type" || !derives(ci.Call.Args[0]) {
					continue
				}
				recv := ci.Call.Args[0]
				k++
				o := core.Ob{Rule: "R-REFLKIND", Key: fmt.Sprintf("zero-value:%s#Type%d", core.FnName(fn), k), Pos: c.P.Pos(ci.Pos()), Func: core.FnName(fn), Armed: true, Status: core.OK,
					Want: "Type() of a Value unwrapped from an interface that may be nil is called only where a test of its kind (or IsValid) has succeeded"}
				ok2 := false
				for _, d := range fn.Blocks {
					if len(d.Succs) != 2 || !d.Dominates(b) {
						continue
					}
					iff, isIf := d.Instrs[len(d.Instrs)-1].(*ssa.If)
					if !isIf {
						continue
					}
					var edge *ssa.BasicBlock
					switch x := iff.Cond.(type) {
					case *ssa.BinOp:
						// recv.Kind() == K (K != Invalid) true edge; recv.Kind() != Invalid true edge
						kc, isCall := x.X.(*ssa.Call)
						kv, isK := constIntVal(x.Y)
						if !isCall || !isK || calleeName(kc.Common()) != "reflect.(Value).Kind" || !sameReflectValue(kc.Call.Args[0], recv) {
							continue
						}
						if x.Op == token.EQL && kv != 0 {
							edge = d.Succs[0]
						}
						if x.Op == token.NEQ && kv == 0 {
							edge = d.Succs[0]
						}
						if x.Op == token.EQL && kv == 0 {
							edge = d.Succs[1]
						}
					case *ssa.Call:
						if calleeName(x.Common()) == "reflect.(Value).IsValid" && sameReflectValue(x.Call.Args[0], recv) {
							edge = d.Succs[0]
						}
					}
					if edge != nil && len(edge.Preds) == 1 && (edge == b || edge.Dominates(b)) {
						ok2 = true
					}
				}
				if !ok2 {
					o.Status, o.Got = core.Violated, "the Value may be the zero Value (Elem() of a nil interface element) here: Type() panics"
				}
				obs = append(obs, o)
			}
		}
	}
	return obs
}

// sameReflectValue: two SSA operands denote the same reflect.Value (the same value, or loads of the same cell).
func sameReflectValue(a, b ssa.Value) bool {
	if a == b {
		return true
	}
	la, ok1 := a.(*ssa.UnOp)
	lb, ok2 := b.(*ssa.UnOp)
	return ok1 && ok2 && la.Op == token.MUL && lb.Op == token.MUL && la.X == lb.X
}

// ---------------------------------------------------------------------------
// T-SNBT[print-range]: an integer the text writer prints with the suffix of a
// tag is read back by the parser with strconv.ParseInt(s, 10, W) for that tag's
// width W (T-SNBTSUF literal-width checks those widths). So what is printed lies
// in the signed W-bit range: the interval the tainted-length interpreter computes
// for the printed value (from the types and conversions on its way) is inside
// it. A byte widened without a signed conversion prints 255B, which does not
// parse.

func (c *Ctx) SNBTPrintRange(pkg string) []core.Ob {
	var obs []core.Ob
	width := map[string]uint{"B": 8, "S": 16, "": 32, "L": 64}
	t := c.TLG()
	for _, fn := range c.Funcs() {
		if !inPkgs(fn, pkg) {
			continue
		}
		// only the text writer: it appends to a strings.Builder
		hasBuilder := false
		for _, p := range fn.Params {
			if types.TypeString(deref(p.Type()), nil) == "strings.Builder" {
				hasBuilder = true
			}
		}
		if !hasBuilder {
			continue
		}
		type site struct {
			call   *ssa.Call
			suffix string
		}
		var sites []site
		for _, ci := range callsIn(fn, func(n string, _ *ssa.CallCommon) bool { return n == "strconv.FormatInt" || n == "strconv.Itoa" }) {
			call, ok := ci.(*ssa.Call)
			if !ok || call.Referrers() == nil {
				continue
			}
			suffix, found := "", false
			for _, r := range *call.Referrers() {
				switch x := r.(type) {
				case *ssa.BinOp:
					if k, ok := x.Y.(*ssa.Const); ok && x.Op == token.ADD && x.X == ssa.Value(call) && k.Value != nil && k.Value.Kind() == constant.String {
						suffix, found = strings.ToUpper(constant.StringVal(k.Value)), true
					}
				case ssa.CallInstruction:
					// written as it is: no suffix (TagInt)
					found = true
				}
			}
			if _, known := width[suffix]; found && known {
				sites = append(sites, site{call, suffix})
			}
		}
		if len(sites) == 0 {
			continue
		}
		ivs := map[*ssa.Call]*Iv{}
		t.Probe(fn, func(in ssa.Instruction, eval func(ssa.Value) AV, _ func(string) (AV, bool)) {
			for _, s := range sites {
				if in == ssa.Instruction(s.call) {
					ivs[s.call] = eval(s.call.Call.Args[0]).all()
				}
			}
		})
		for i, s := range sites {
			w := width[s.suffix]
			o := core.Ob{Rule: "T-SNBT", Key: fmt.Sprintf("print-range:%s#%d:%s", core.FnName(fn), i+1, s.suffix), Pos: c.P.Pos(s.call.Pos()), Func: core.FnName(fn), Armed: true, Status: core.OK,
				Want: fmt.Sprintf("the integer printed with suffix %q lies in the signed %d-bit range its parser accepts", s.suffix, w)}
			lo := new(big.Int).Neg(new(big.Int).Lsh(bi(1), w-1))
			hi := new(big.Int).Sub(new(big.Int).Lsh(bi(1), w-1), bi(1))
			iv := ivs[s.call]
			switch {
			case iv == nil || iv.Lo == nil || iv.Hi == nil:
				if w < 64 {
					o.Status, o.Got = core.Violated, "nothing bounds the printed value to the range of its tag"
				}
			case iv.Lo.Cmp(lo) < 0 || iv.Hi.Cmp(hi) > 0:
				o.Status, o.Got = core.Violated, fmt.Sprintf("the printed value ranges over [%s, %s]: values outside [%s, %s] are written but refused when read back (an unsigned byte printed as 255B)", iv.Lo, iv.Hi, lo, hi)
			default:
				o.Got = fmt.Sprintf("[%s, %s]", iv.Lo, iv.Hi)
			}
			obs = append(obs, o)
		}
	}
	return obs
}

// ---------------------------------------------------------------------------
// T-SCANSTATE[delegated-skip-space]: the scanner's state functions call one
// another ("the number ended here, so this byte is whatever follows a value").
// A state function that other state functions call, and that answers "skip this
// blank", has to make itself the current state before it returns where a state
// that goes on with a literal (one that answers "continue" for some byte) is
// among those that delegate to it, directly or through other states: otherwise
// the state that delegated stays current, and the byte after the blank continues
// the literal that had ended (`[1 2]` reads as one literal and the decoder, out
// of step with the scanner, panics).

func (c *Ctx) ScannerDelegatedSkip(pkg string) []core.Ob {
	var obs []core.Ob
	// state functions: func(*scanner, byte) int of the package, where scanner is the struct with a `step` field of that type
	isState := func(fn *ssa.Function) bool {
		sig := fn.Signature
		if sig.Recv() != nil || sig.Params().Len() != 2 || sig.Results().Len() != 1 {
			return false
		}
		if _, ok := deref(sig.Params().At(0).Type()).Underlying().(*types.Struct); !ok {
			return false
		}
		b, ok := sig.Params().At(1).Type().Underlying().(*types.Basic)
		r, ok2 := sig.Results().At(0).Type().Underlying().(*types.Basic)
		return ok && ok2 && b.Kind() == types.Uint8 && r.Kind() == types.Int
	}
	var states []*ssa.Function
	for _, fn := range c.Funcs() {
		if inPkgs(fn, pkg) && fn.Parent() == nil && isState(fn) {
			states = append(states, fn)
		}
	}
	// the "skip space" code: the constant returned by the begin-value state for a blank - taken as the
	// package constant named scanSkipSpace
	var skip *big.Int
	for _, pk := range c.P.Pkgs {
		if core.Rel(pk.PkgPath) == pkg {
			if k, ok := pk.Types.Scope().Lookup("scanSkipSpace").(*types.Const); ok {
				if v, ok := constant.Int64Val(k.Val()); ok {
					skip = bi(v)
				}
			}
		}
	}
	if skip == nil || len(states) < 5 {
		return []core.Ob{{Rule: "T-SCANSTATE", Key: "delegated-skip-space:anchor", Armed: true, Status: core.Violated, Want: "the scanner's state functions and its skip-space code are found", Got: fmt.Sprintf("%d state functions", len(states))}}
	}
	// delegated with a byte that may be a blank: call sites that are not behind "this byte is not a
	// blank" (the false edge of isSpace(c), or the true edge of c == some visible character)
	notBlankAt := func(fn *ssa.Function, at *ssa.BasicBlock) bool {
		if len(fn.Params) < 2 {
			return false
		}
		cp := ssa.Value(fn.Params[1])
		for _, d := range fn.Blocks {
			if len(d.Succs) != 2 {
				continue
			}
			iff, ok := d.Instrs[len(d.Instrs)-1].(*ssa.If)
			if !ok {
				continue
			}
			var edge *ssa.BasicBlock
			switch x := iff.Cond.(type) {
			case *ssa.Call:
				if g := x.Call.StaticCallee(); g != nil && g.Name() == "isSpace" && len(x.Call.Args) == 1 && x.Call.Args[0] == cp {
					edge = d.Succs[1]
				}
			case *ssa.BinOp:
				if kv, ok := constIntVal(x.Y); ok && x.X == cp && kv != ' ' && kv != '\t' && kv != '\n' && kv != '\r' {
					if x.Op == token.EQL {
						edge = d.Succs[0]
					}
				}
			}
			if edge != nil && len(edge.Preds) == 1 && (edge == at || edge.Dominates(at)) {
				return true
			}
		}
		return false
	}
	delegated := map[*ssa.Function]bool{}
	callers := map[*ssa.Function][]*ssa.Function{}
	for _, fn := range states {
		for _, ci := range callsIn(fn, func(_ string, cc *ssa.CallCommon) bool { return cc.StaticCallee() != nil }) {
			g := core.Origin(ci.Common().StaticCallee())
			for _, s := range states {
				if s == g && g != fn && !notBlankAt(fn, ci.Block()) {
					delegated[g] = true
					callers[g] = append(callers[g], fn)
				}
			}
		}
	}
	// Staying in the delegating state over a blank is wrong where that state goes on with a literal
	// (it answers "continue" for some byte: the number and unquoted-string states). A state that only
	// ever begins something (`[` delegating its blanks to the state behind `[B;`) may stay current.
	var cont *big.Int
	for _, pk := range c.P.Pkgs {
		if core.Rel(pk.PkgPath) == pkg {
			if k, ok := pk.Types.Scope().Lookup("scanContinue").(*types.Const); ok {
				if v, ok := constant.Int64Val(k.Val()); ok {
					cont = bi(v)
				}
			}
		}
	}
	continues := func(fn *ssa.Function) bool {
		if cont == nil {
			return true
		}
		for _, b := range fn.Blocks {
			ret, ok := b.Instrs[len(b.Instrs)-1].(*ssa.Return)
			if !ok || len(ret.Results) != 1 {
				continue
			}
			vals := []ssa.Value{ret.Results[0]}
			if phi, ok := ret.Results[0].(*ssa.Phi); ok {
				vals = phi.Edges
			}
			for _, v := range vals {
				if kv, ok := constIntVal(v); ok && kv == cont.Int64() {
					return true
				}
			}
		}
		return false
	}
	midLiteral := func(g *ssa.Function) bool {
		seen := map[*ssa.Function]bool{g: true}
		work := append([]*ssa.Function(nil), callers[g]...)
		for len(work) > 0 {
			f := work[0]
			work = work[1:]
			if seen[f] {
				continue
			}
			seen[f] = true
			if continues(f) {
				return true
			}
			work = append(work, callers[f]...)
		}
		return false
	}
	for g := range delegated {
		if !midLiteral(g) {
			delete(delegated, g)
		}
	}
	for _, fn := range states {
		if !delegated[fn] {
			continue
		}
		k := 0
		for _, b := range fn.Blocks {
			ret, ok := b.Instrs[len(b.Instrs)-1].(*ssa.Return)
			if !ok || len(ret.Results) != 1 {
				continue
			}
			// the returned value, per incoming edge when it is a phi
			type cand struct {
				v    ssa.Value
				from *ssa.BasicBlock
			}
			cands := []cand{{ret.Results[0], b}}
			if phi, ok := ret.Results[0].(*ssa.Phi); ok && phi.Block() == b {
				cands = nil
				for i, e := range phi.Edges {
					cands = append(cands, cand{e, b.Preds[i]})
				}
			}
			for _, cd := range cands {
				kv, ok := constIntVal(cd.v)
				if !ok || kv != skip.Int64() {
					continue
				}
				k++
				o := core.Ob{Rule: "T-SCANSTATE", Key: fmt.Sprintf("delegated-skip-space:%s#%d", core.FnName(fn), k), Pos: c.P.Pos(ret.Pos()), Func: core.FnName(fn), Armed: true, Status: core.OK,
					Want: "a state function that other states delegate to sets the scanner's step before it answers \"skip this blank\""}
				set := false
				for _, d := range fn.Blocks {
					if !(d == cd.from || d.Dominates(cd.from)) {
						continue
					}
					for _, in := range d.Instrs {
						if st, ok := in.(*ssa.Store); ok {
							if fa, ok := st.Addr.(*ssa.FieldAddr); ok && fa.X == ssa.Value(fn.Params[0]) {
								if _, isFn := deref(fa.Type()).Underlying().(*types.Signature); isFn {
									set = true
								}
							}
						}
					}
				}
				if !set {
					o.Status, o.Got = core.Violated, "the step is left as it was: the state that delegated stays current and the byte after the blank continues the value that had ended"
				}
				obs = append(obs, o)
			}
		}
	}
	return obs
}

// ---------------------------------------------------------------------------
// R-ORDER[text-entry:end-of-input-checked]: the text-to-binary entry point
// reports success only after the scanner has been asked about the end of the
// input (its eof method): `{a:1}x`, `1 2` and a literal cut short are errors,
// not documents.

func (c *Ctx) TextEntryEOF(fnName string) []core.Ob {
	o := core.Ob{Rule: "R-ORDER", Key: "text-entry:end-of-input-checked:" + fnName, Armed: true, Status: core.OK,
		Want: "every success return of the text entry point lies behind a call of the scanner's end-of-input check made after the value was converted"}
	fn := c.Fn(fnName)
	if fn == nil {
		o.Status, o.Got = core.Violated, fnName+" not found"
		return []core.Ob{o}
	}
	o.Pos, o.Func = c.P.Pos(fn.Pos()), core.FnName(fn)
	v := c.inlineView(fn, 1)
	// the value conversion: the call (in the root frame) of a function of the package that is handed the decode state
	conv := -1
	for _, n := range v.nodes {
		if n.frame.parent != nil {
			continue
		}
		ci, ok := n.in.(*ssa.Call)
		if !ok {
			continue
		}
		g := ci.Call.StaticCallee()
		if g == nil || core.FnPkg(g) != core.FnPkg(fn) || g.Signature.Recv() != nil {
			continue
		}
		if isErrorType(ci.Type()) || (ci.Type().String() != "" && strings.Contains(ci.Type().String(), "error")) {
			conv = n.id
		}
	}
	if conv < 0 {
		o.Status, o.Got = core.Violated, "the call that converts the value is not recognised"
		return []core.Ob{o}
	}
	isEOF := func(n *inode) bool {
		ci, ok := n.in.(ssa.CallInstruction)
		if !ok {
			return false
		}
		g := ci.Common().StaticCallee()
		return g != nil && g.Name() == "eof" && g.Signature.Recv() != nil
	}
	// success exits of the root that can follow the conversion without an eof check
	var eofs []int
	for _, n := range v.nodes {
		if isEOF(n) {
			eofs = append(eofs, n.id)
		}
	}
	for _, n := range v.nodes {
		ret, ok := n.in.(*ssa.Return)
		if !ok || n.frame.parent != nil || len(ret.Results) == 0 {
			continue
		}
		if !v.reachAvoidingErrAware(conv, n.id, eofs) {
			continue
		}
		res := ret.Results[len(ret.Results)-1]
		if errKnownNonNil(res, ret.Block()) {
			continue
		}
		o.Status, o.Pos = core.Violated, c.P.Pos(ret.Pos())
		o.Got = "a return that can report success is reached after the conversion without the end of the input having been checked: text after the value (or a value cut short) goes unnoticed"
	}
	return []core.Ob{o}
}

// ---------------------------------------------------------------------------
// R-MARSHALER[every-value-through-the-wrapper]: the encoder has one function
// that looks whether a value implements Marshaler before it falls back to the
// kind switch. The kind switch is entered only through it: a recursive call
// that goes to the kind switch directly (for the elements of a list, say) skips
// the custom encoders, and a carrier type such as RawMessage - whose TagType()
// names the tag of what it carries - is then taken apart as if it were that tag
// (`[]RawMessage` panics in reflect.Value.Len).

func (c *Ctx) MarshalerWrapper(pkg string) []core.Ob {
	var obs []core.Ob
	// the wrapper: a function of the package that asserts its reflect.Value's Interface() to the
	// Marshaler interface and calls another function of the package with its own two parameters
	var wrapper, kindSwitch *ssa.Function
	for _, fn := range c.Funcs() {
		if !inPkgs(fn, pkg) || len(fn.Params) < 2 {
			continue
		}
		asserts := false
		for _, b := range fn.Blocks {
			for _, in := range b.Instrs {
				if ta, ok := in.(*ssa.TypeAssert); ok {
					if n, ok := types.Unalias(ta.AssertedType).(*types.Named); ok && n.Obj().Name() == "Marshaler" && n.Obj().Pkg() != nil && core.Rel(n.Obj().Pkg().Path()) == pkg {
						asserts = true
					}
				}
			}
		}
		if !asserts {
			continue
		}
		for _, ci := range callsIn(fn, func(_ string, cc *ssa.CallCommon) bool {
			g := cc.StaticCallee()
			return g != nil && core.FnPkg(g) == core.FnPkg(fn) && core.Origin(g) != fn
		}) {
			args := ci.Common().Args
			if len(args) >= 2 && args[len(args)-1] == ssa.Value(fn.Params[len(fn.Params)-1]) && args[len(args)-2] == ssa.Value(fn.Params[len(fn.Params)-2]) {
				if types.TypeString(args[len(args)-2].Type(), nil) == "reflect.Value" {
					wrapper, kindSwitch = fn, core.Origin(ci.Common().StaticCallee())
				}
			}
		}
	}
	if wrapper == nil {
		return []core.Ob{{Rule: "R-MARSHALER", Key: "every-value-through-the-wrapper:anchor", Armed: true, Status: core.Violated,
			Want: "the encoder's Marshaler-aware wrapper around its kind switch is found", Got: "not found"}}
	}
	k := 0
	for _, fn := range c.Funcs() {
		if !inPkgs(fn, pkg) || fn == wrapper {
			continue
		}
		for _, ci := range callsIn(fn, func(_ string, cc *ssa.CallCommon) bool {
			g := cc.StaticCallee()
			return g != nil && core.Origin(g) == kindSwitch
		}) {
			k++
			obs = append(obs, core.Ob{Rule: "R-MARSHALER", Key: fmt.Sprintf("every-value-through-the-wrapper:%s#%d", core.FnName(fn), k), Pos: c.P.Pos(ci.Pos()), Func: core.FnName(fn), Armed: true, Status: core.Violated,
				Want: "the kind switch " + kindSwitch.Name() + " is entered only through " + wrapper.Name() + ", which gives a Marshaler the word first",
				Got:  "a value is handed to the kind switch directly: an element that implements Marshaler (RawMessage, StringifiedMessage, dynbt.Value in a list) is encoded by its tag's generic code instead of its own MarshalNBT"})
		}
	}
	obs = append(obs, core.Ob{Rule: "R-MARSHALER", Key: "every-value-through-the-wrapper:" + core.FnName(wrapper), Pos: c.P.Pos(wrapper.Pos()), Func: core.FnName(wrapper), Armed: true, Status: core.OK,
		Want: "the kind switch " + kindSwitch.Name() + " is entered only through " + wrapper.Name(), Got: fmt.Sprintf("%d direct entries", k)})
	return obs
}
