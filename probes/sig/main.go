package main

import (
	"fmt"

	"github.com/Tnze/go-mc/yggdrasil/user"
)

func main() {
	forged := make([]byte, 512)
	fmt.Println("forged signature accepted:", user.VerifySignature([]byte("any key bytes"), forged))
}
