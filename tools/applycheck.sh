#!/bin/bash
# dry-run every corpus patch against /repo HEAD
for p in /verif/seeded/*/patch.diff /verif/mutants/*/*.diff /verif/refactors/*/patch.diff /verif/refactors_round2/*/patch.diff /verif/refactors_round3/*/patch.diff /verif/refactors_round4/*/patch.diff; do
  [ -f "$p" ] || continue
  if ! (cd /repo && patch -p1 --batch --dry-run -s < "$p" >/dev/null 2>&1); then echo "NOAPPLY $p"; fi
done
