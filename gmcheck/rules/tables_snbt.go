package rules

import (
	"fmt"
	"go/ast"
	"go/constant"
	"go/token"
	"go/types"
	"math/big"
	"sort"
	"strconv"
	"strings"

	"gmcheck/core"
)

// charTagSwitches: switch statements in fn whose cases are character constants
// and whose clauses return / assign a Tag constant: char -> tag name.
func charTagTables(info *types.Info, body ast.Node) []map[int64]string {
	var out []map[int64]string
	ast.Inspect(body, func(n ast.Node) bool {
		sw, ok := n.(*ast.SwitchStmt)
		if !ok {
			return true
		}
		tbl := map[int64]string{}
		var pending []int64
		for _, s := range sw.Body.List {
			cc := s.(*ast.CaseClause)
			tag := ""
			ast.Inspect(cc, func(x ast.Node) bool {
				if tag != "" {
					return false
				}
				switch v := x.(type) {
				case *ast.ReturnStmt:
					if len(v.Results) > 0 {
						if name, _, ok := tagConst(info, v.Results[0]); ok {
							tag = name
						}
					}
				case *ast.AssignStmt:
					for _, r := range v.Rhs {
						if name, _, ok := tagConst(info, r); ok && tag == "" && strings.HasSuffix(name, "Array") {
							tag = name
						}
					}
				}
				return true
			})
			var chars []int64
			for _, e := range cc.List {
				if tv, ok := info.Types[e]; ok && tv.Value != nil && tv.Value.Kind() == constant.Int {
					if v, ok := constant.Int64Val(tv.Value); ok {
						chars = append(chars, v)
					}
				}
			}
			if cc.List == nil {
				chars = append(chars, -1) // default clause
			}
			// a clause that only falls through shares the next clause's tag
			if len(cc.Body) == 1 {
				if br, ok := cc.Body[0].(*ast.BranchStmt); ok && br.Tok == token.FALLTHROUGH {
					pending = append(pending, chars...)
					continue
				}
			}
			if tag == "" {
				pending = nil
				continue
			}
			for _, v := range append(pending, chars...) {
				tbl[v] = tag
			}
			pending = nil
		}
		if len(tbl) >= 3 {
			out = append(out, tbl)
		}
		return true
	})
	return out
}

// SNBTSuffix implements T-SNBTSUF.
func (c *Ctx) SNBTSuffix() []core.Ob {
	mk := func(key, want string) core.Ob {
		return core.Ob{Rule: "T-SNBTSUF", Key: key, Want: want, Armed: true, Status: core.OK}
	}
	var obs []core.Ob
	encFn := c.Fn("nbt.(*StringifiedMessage).encode")
	plFn := c.Fn("nbt.parseLiteral")
	if encFn == nil || plFn == nil {
		o := mk("anchors", "encode and parseLiteral exist")
		o.Status, o.Got = core.Violated, "not found"
		return []core.Ob{o}
	}
	// ---- writer: per tag, suffixes and array prefix
	var ws *tagSwitch
	for _, ts := range c.tagSwitches("nbt") {
		if ts.fn == "nbt.(*StringifiedMessage).encode" && len(ts.cases) >= 9 {
			ws = ts
		}
	}
	if ws == nil {
		o := mk("writer-dispatch", "the text writer's tag dispatch is found")
		o.Status, o.Got = core.Violated, "not found"
		return []core.Ob{o}
	}
	type emit struct {
		suffixes []string
		prefix   string
	}
	emits := map[string]emit{}
	for tv, cc := range ws.cases {
		var e emit
		ast.Inspect(cc, func(n ast.Node) bool {
			switch v := n.(type) {
			case *ast.BinaryExpr:
				if v.Op == token.ADD {
					if bl, ok := v.Y.(*ast.BasicLit); ok && bl.Kind == token.STRING {
						s, _ := strconv.Unquote(bl.Value)
						e.suffixes = append(e.suffixes, s)
					}
				}
			case *ast.CallExpr:
				if sel, ok := v.Fun.(*ast.SelectorExpr); ok && sel.Sel.Name == "WriteString" && len(v.Args) == 1 {
					if bl, ok := v.Args[0].(*ast.BasicLit); ok {
						s, _ := strconv.Unquote(bl.Value)
						if strings.HasPrefix(s, "[") && strings.HasSuffix(s, ";") {
							e.prefix = s
						}
					}
				}
			}
			return true
		})
		emits[ws.names[tv]] = e
	}
	// ---- parser tables
	fd, pk := c.astFuncDecl(plFn)
	tables := charTagTables(pk.TypesInfo, fd.Body)
	if len(tables) < 2 {
		o := mk("parser-tables", "parseLiteral's integer and float suffix tables are extractable")
		o.Status, o.Got = core.Violated, fmt.Sprintf("%d tables found", len(tables))
		return append(obs, o)
	}
	var intTbl, floatTbl map[int64]string
	for _, tb := range tables {
		_, hasB := tb['B']
		_, hasF := tb['F']
		switch {
		case hasB && intTbl == nil:
			intTbl = tb
		case hasF && !hasB && floatTbl == nil:
			floatTbl = tb
		}
	}
	if intTbl == nil || floatTbl == nil {
		o := mk("parser-tables", "parseLiteral's integer and float suffix tables are extractable")
		o.Status, o.Got = core.Violated, "suffix switches not recognised"
		return append(obs, o)
	}
	ev := &skelEval{c: c, sizes: pk.TypesSizes}
	class := func(fnName string, ch byte) (bool, error) {
		fn := c.Fn(fnName)
		if fn == nil {
			return false, fmt.Errorf("%s not found", fnName)
		}
		r, err := ev.run(fn, []*big.Int{bi(int64(ch))})
		if err != nil {
			return false, err
		}
		return r.Sign() != 0, nil
	}
	var tags []string
	for t := range emits {
		tags = append(tags, t)
	}
	sort.Strings(tags)
	intTags := map[string]bool{"TagByte": true, "TagShort": true, "TagInt": true, "TagLong": true}
	arrElem := map[string]string{"TagByteArray": "TagByte", "TagIntArray": "TagInt", "TagLongArray": "TagLong"}
	for _, t := range tags {
		e := emits[t]
		want := t
		if et, ok := arrElem[t]; ok {
			want = et
		}
		isInt := intTags[want]
		isFloat := want == "TagFloat" || want == "TagDouble"
		if !isInt && !isFloat {
			continue
		}
		suf := ""
		if len(e.suffixes) > 0 {
			suf = e.suffixes[len(e.suffixes)-1]
		}
		o := mk("suffix:"+t, "the numeric suffix the text writer emits for "+t+" is classified back to "+want+" by the parser's literal classifier")
		o.Pos = c.P.Pos(ws.cases[tagValueByName(ws, t)].Pos())
		switch {
		case len(suf) > 1:
			o.Status, o.Got = core.Violated, "suffix "+strconv.Quote(suf)+" is longer than one character"
		case suf == "":
			if intTbl[0] != want {
				o.Status, o.Got = core.Violated, "no suffix is written, but an unsuffixed integer parses as "+intTbl[0]
			}
		default:
			ch := suf[0]
			if isInt {
				okc, err := class("nbt.isIntegerType", ch)
				if err != nil {
					o.Status, o.Got = core.Violated, err.Error()
				} else if !okc {
					o.Status, o.Got = core.Violated, fmt.Sprintf("the writer emits suffix %q but isIntegerType(%q) is false: the literal is read as a string, not as %s", suf, suf, want)
				} else if intTbl[int64(ch)] != want {
					o.Status, o.Got = core.Violated, fmt.Sprintf("suffix %q maps to %s in the parser, the writer used it for %s", suf, intTbl[int64(ch)], want)
				}
			} else {
				okc, err := class("nbt.isFloatType", ch)
				if err != nil {
					o.Status, o.Got = core.Violated, err.Error()
				} else if !okc {
					o.Status, o.Got = core.Violated, fmt.Sprintf("isFloatType(%q) is false", suf)
				} else {
					ft, okf := floatTbl[int64(ch)]
					if !okf {
						ft = floatTbl[-1]
					}
					if ft != want || intTbl[int64(ch)] != want {
						o.Status, o.Got = core.Violated, fmt.Sprintf("suffix %q maps to %s/%s in the parser, the writer used it for %s", suf, ft, intTbl[int64(ch)], want)
					}
				}
			}
		}
		obs = append(obs, o)
	}
	// ---- array prefix tables: writer prefix, TagType(), writeListOrArray agree
	var prefTables []map[int64]string
	for _, n := range []string{"nbt.(StringifiedMessage).TagType", "nbt.writeListOrArray"} {
		fn := c.Fn(n)
		if fn == nil {
			continue
		}
		d, p := c.astFuncDecl(fn)
		for _, tb := range charTagTables(p.TypesInfo, d.Body) {
			arr := true
			for k, v := range tb {
				if k >= 0 && !strings.HasSuffix(v, "Array") {
					arr = false
				}
			}
			if arr {
				prefTables = append(prefTables, tb)
			}
		}
	}
	po := mk("array-prefix-tables", "the typed-array prefixes B/I/L mean ByteArray/IntArray/LongArray in the writer, in TagType() and in the parser alike")
	if len(prefTables) < 2 {
		po.Status, po.Got = core.Violated, fmt.Sprintf("%d prefix tables found in TagType/writeListOrArray", len(prefTables))
	} else {
		for _, t := range []string{"TagByteArray", "TagIntArray", "TagLongArray"} {
			p := emits[t].prefix
			if len(p) != 3 {
				po.Status, po.Got = core.Violated, "writer prefix for "+t+" is "+strconv.Quote(p)
				continue
			}
			for i, tb := range prefTables {
				if tb[int64(p[1])] != t {
					po.Status, po.Got = core.Violated, fmt.Sprintf("prefix %q is written for %s but table %d maps it to %s", p, t, i, tb[int64(p[1])])
				}
			}
		}
	}
	obs = append(obs, po)
	return obs
}

func tagValueByName(ts *tagSwitch, name string) int64 {
	for v, n := range ts.names {
		if n == name {
			return v
		}
	}
	return -1
}
