package rules

import (
	"gmcheck/core"

	"golang.org/x/tools/go/ssa"
)

func init() {
	Props["XTLG"] = PropDef{Explanation: "debug: all R-TLG sinks", Run: func(c *Ctx) []core.Ob {
		all := func(*ssa.Function) bool { return true }
		return c.TLGObs(all, all, true)
	}}
}
