package rules

// R-ERRFLOW: errors of calls on codec paths are not swallowed.
//  E1  the error result of a call is looked at (not discarded), unless the
//      callee writes to an in-memory sink that cannot fail;
//  E2  on the edge where a call's error was found non-nil, every return
//      reachable before the error variable is reassigned returns a non-nil
//      error (the error itself, a wrapper of it, or a freshly built error).

import (
	"fmt"
	"go/constant"
	"go/token"
	"go/types"
	"strings"

	"gmcheck/core"

	"golang.org/x/tools/go/ssa"
)

var errType = types.Universe.Lookup("error").Type()

// errResultIndex: index of the error in the call's result tuple (-1 if none).
func errResultIndex(call ssa.CallInstruction) int {
	sig := call.Common().Signature()
	res := sig.Results()
	for i := res.Len() - 1; i >= 0; i-- {
		if types.Identical(res.At(i).Type(), errType) {
			return i
		}
	}
	return -1
}

// infallibleSink: the call writes into memory that cannot fail.
func infallibleSink(cc *ssa.CallCommon) bool {
	name := calleeName(cc)
	switch {
	case strings.HasPrefix(name, "bytes.(Buffer)."), strings.HasPrefix(name, "strings.(Builder)."), strings.HasPrefix(name, "hash."),
		strings.HasPrefix(name, "crypto/") && strings.HasSuffix(name, ".Write"):
		return true
	}
	// X.WriteTo(w) / binary.Write(w, ...) / fmt.Fprintf(w, ...) where w is *bytes.Buffer, *strings.Builder or a hash
	args := cc.Args
	if cc.IsInvoke() {
		args = append([]ssa.Value{cc.Value}, args...)
	}
	for _, a := range args {
		t := a.Type()
		if mi, ok := a.(*ssa.MakeInterface); ok {
			t = mi.X.Type()
		}
		if ci, ok := a.(*ssa.ChangeInterface); ok {
			t = ci.X.Type() // hash.Hash handed on as an io.Writer
		}
		s := t.String()
		if s == "*bytes.Buffer" || s == "*strings.Builder" || s == "hash.Hash" {
			return true
		}
	}
	return false
}

func hasErrorResult(fn *ssa.Function) bool {
	res := fn.Signature.Results()
	for i := 0; i < res.Len(); i++ {
		if types.Identical(res.At(i).Type(), errType) {
			return true
		}
	}
	return false
}

func otherResultsUsed(call *ssa.Call, errIdx int) bool {
	refs := call.Referrers()
	if refs == nil {
		return false
	}
	for _, r := range *refs {
		if ex, ok := r.(*ssa.Extract); ok && ex.Index != errIdx && ex.Referrers() != nil {
			for _, u := range *ex.Referrers() {
				if _, dbg := u.(*ssa.DebugRef); !dbg {
					return true
				}
			}
		}
	}
	return false
}

// stickyWriterClosed: the call writes to a *zlib/gzip/flate.Writer (which keeps
// the first error and returns it from every later call) and the function
// checks the error of Close on the same writer value.
func stickyWriterClosed(fn *ssa.Function, cc *ssa.CallCommon) bool {
	var w ssa.Value
	args := cc.Args
	if cc.IsInvoke() {
		args = append([]ssa.Value{cc.Value}, args...)
	}
	for _, a := range args {
		v := a
		if mi, ok := a.(*ssa.MakeInterface); ok {
			v = mi.X
		}
		switch v.Type().String() {
		case "*compress/zlib.Writer", "*compress/gzip.Writer", "*compress/flate.Writer":
			w = v
		}
	}
	if w == nil {
		return false
	}
	for _, b := range fn.Blocks {
		for _, in := range b.Instrs {
			cl, ok := in.(*ssa.Call)
			if !ok || len(cl.Common().Args) == 0 || cl.Common().Args[0] != w {
				continue
			}
			if sc := cl.Common().StaticCallee(); sc != nil && sc.Name() == "Close" && cl.Referrers() != nil && len(*cl.Referrers()) > 0 {
				return true
			}
		}
	}
	return false
}

// lastActionBeforeGivingUp: after the call, no path to the function's exit runs
// any code of the module (only logging and accessors of the standard library):
// the function is abandoning the operation (a disconnect notice before the
// connection is dropped) and nothing proceeds as if the call had succeeded. A
// dropped error that is followed by further protocol steps is not covered.
func (c *Ctx) lastActionBeforeGivingUp(fn *ssa.Function, call *ssa.Call) bool {
	return c.nothingFollows(fn, call, 0, nil)
}

// retFlag: the helper that was just left handed back the constant val as its result idx on every
// path behind the notice ("ok = false"): in the caller only the branch that this value selects runs.
type retFlag struct {
	idx int
	val bool
}

func (c *Ctx) nothingFollows(fn *ssa.Function, call ssa.CallInstruction, depth int, flag *retFlag) bool {
	if hasErrorResult(fn) || depth > 2 {
		return false // it could have been reported
	}
	// harmless: the function (and what it calls statically inside the module) only talks to the
	// standard library - a logging helper - and performs no step of the module's own protocol code
	var harmless func(g *ssa.Function, d int) bool
	stepCall := func(ci ssa.CallInstruction, d int) bool {
		cc := ci.Common()
		if _, isB := cc.Value.(*ssa.Builtin); isB {
			return false
		}
		if cc.IsInvoke() {
			// a method of an interface: harmless only when the interface is not one of the module's
			if n, ok := types.Unalias(cc.Value.Type()).(*types.Named); ok && n.Obj().Pkg() != nil && !strings.HasPrefix(n.Obj().Pkg().Path(), core.ModPath) {
				return false
			}
			return true
		}
		g := cc.StaticCallee()
		if g == nil {
			return true // a func value: module code may run
		}
		if !c.P.InModule(g) {
			return false
		}
		return !harmless(core.Origin(g), d+1)
	}
	harmless = func(g *ssa.Function, d int) bool {
		if d > 2 || len(g.Blocks) == 0 {
			return false
		}
		for _, b := range g.Blocks {
			for _, in := range b.Instrs {
				if ci, ok := in.(ssa.CallInstruction); ok && stepCall(ci, d) {
					return false
				}
			}
		}
		return true
	}
	moduleCall := func(in ssa.Instruction) bool {
		ci, ok := in.(ssa.CallInstruction)
		return ok && stepCall(ci, 0)
	}
	b := call.Block()
	after := false
	for _, in := range b.Instrs {
		if in == ssa.Instruction(call) {
			after = true
			continue
		}
		if after && moduleCall(in) {
			return false
		}
	}
	// the successors that can run, given what the callee is known to have returned
	succsOf := func(x *ssa.BasicBlock) []*ssa.BasicBlock {
		if flag == nil || len(x.Succs) != 2 {
			return x.Succs
		}
		iff, ok := x.Instrs[len(x.Instrs)-1].(*ssa.If)
		if !ok {
			return x.Succs
		}
		cond, neg := iff.Cond, false
		if u, ok := cond.(*ssa.UnOp); ok && u.Op == token.NOT {
			cond, neg = u.X, true
		}
		cv, _ := call.(ssa.Value)
		isFlag := false
		if ex, ok := cond.(*ssa.Extract); ok && cv != nil && ex.Tuple == cv && ex.Index == flag.idx {
			isFlag = true
		}
		if cv != nil && cond == cv && flag.idx == 0 {
			isFlag = true
		}
		if !isFlag {
			return x.Succs
		}
		if flag.val != neg {
			return x.Succs[:1]
		}
		return x.Succs[1:]
	}
	seen := map[*ssa.BasicBlock]bool{}
	st := append([]*ssa.BasicBlock(nil), succsOf(b)...)
	var rets []*ssa.Return
	if r, ok := b.Instrs[len(b.Instrs)-1].(*ssa.Return); ok {
		rets = append(rets, r)
	}
	for len(st) > 0 {
		x := st[len(st)-1]
		st = st[:len(st)-1]
		if seen[x] {
			continue
		}
		seen[x] = true
		if x == b {
			return false // in a loop: the next iteration proceeds
		}
		for _, in := range x.Instrs {
			if moduleCall(in) {
				return false
			}
		}
		if r, ok := x.Instrs[len(x.Instrs)-1].(*ssa.Return); ok {
			rets = append(rets, r)
		}
		st = append(st, succsOf(x)...)
	}
	// what the function hands back on these paths: a constant boolean result tells the caller's branch
	var out *retFlag
	for i := 0; i < fn.Signature.Results().Len(); i++ {
		if bt, ok := fn.Signature.Results().At(i).Type().Underlying().(*types.Basic); !ok || bt.Kind() != types.Bool {
			continue
		}
		same, first := true, true
		val := false
		for _, r := range rets {
			k, ok := r.Results[i].(*ssa.Const)
			if !ok || k.Value == nil || k.Value.Kind() != constant.Bool {
				same = false
				break
			}
			if first {
				val, first = constant.BoolVal(k.Value), false
			} else if constant.BoolVal(k.Value) != val {
				same = false
			}
		}
		if same && !first {
			out = &retFlag{idx: i, val: val}
		}
	}
	// a helper (rejectLogin) returns to its callers: nothing may follow there either
	if obj := fn.Object(); fn.Parent() == nil && (obj == nil || !obj.Exported()) {
		if n := c.P.CallGraph().Nodes[fn]; n != nil {
			for _, e := range n.In {
				if e.Site == nil || e.Caller == nil || e.Caller.Func == nil || !c.P.InModule(e.Caller.Func) {
					continue
				}
				if !c.nothingFollows(e.Caller.Func, e.Site, depth+1, out) {
					return false
				}
			}
		}
	}
	return true
}

// ErrFlow implements R-ERRFLOW over the functions selected by include.
func (c *Ctx) ErrFlow(include, armed func(*ssa.Function) bool) []core.Ob {
	var obs []core.Ob
	for _, fn := range c.Funcs() {
		if !include(fn) || len(fn.Blocks) == 0 {
			continue
		}
		fname := core.FnName(fn)
		perCallee := map[string]int{}
		k := 0
		for _, b := range fn.Blocks {
			for _, in := range b.Instrs {
				ci, ok := in.(ssa.CallInstruction)
				if !ok {
					continue
				}
				if df, isDefer := in.(*ssa.Defer); isDefer {
					// deferred Close of something read from: accepted idiom. A deferred call that
					// completes pending output (Flush of a buffered writer, Close/Flush of a
					// compressing writer) is where the write errors surface, and deferred they go nowhere.
					if what := deferredCompletion(df); what != "" {
						perCallee["defer "+what]++
						obs = append(obs, core.Ob{Rule: "R-ERRFLOW", Key: fmt.Sprintf("%s#defer %s@%d:error-used", fname, what, perCallee["defer "+what]), Pos: c.P.Pos(df.Pos()), Func: fname, Armed: armed(fn), Status: core.Violated,
							Want: "the call that completes buffered output is not deferred with its error dropped",
							Got:  "defer " + what + ": the error of the final write cannot reach the caller, a failed write is reported as success"})
					}
					continue
				}
				if _, isGo := in.(*ssa.Go); isGo {
					continue
				}
				idx := errResultIndex(ci)
				if idx < 0 {
					continue
				}
				cc := ci.Common()
				name := calleeName(cc)
				if name == "" {
					name = "func value"
				}
				call := in.(*ssa.Call)
				short := name[strings.LastIndex(name, "/")+1:]
				// ordinal among the calls of the same callee in this function: adding or
				// moving unrelated calls does not renumber it
				perCallee[short]++
				k = perCallee[short]
				// ---- E1
				var errv ssa.Value
				if call.Common().Signature().Results().Len() == 1 {
					errv = call
				} else if refs := call.Referrers(); refs != nil {
					for _, r := range *refs {
						if ex, ok := r.(*ssa.Extract); ok && ex.Index == idx {
							errv = ex
						}
					}
				}
				used := false
				if errv != nil && errv.Referrers() != nil {
					for _, r := range *errv.Referrers() {
						if _, dbg := r.(*ssa.DebugRef); !dbg {
							used = true
						}
					}
				}
				o := core.Ob{Rule: "R-ERRFLOW", Key: fmt.Sprintf("%s#%s@%d:error-used", fname, short, k), Pos: c.P.Pos(call.Pos()), Func: fname, Armed: armed(fn), Status: core.OK,
					Want: "the error returned by " + short + " is looked at (returned, tested or passed on), or the callee writes to an in-memory sink that cannot fail"}
				switch {
				case used:
				case infallibleSink(cc):
					o.Got = "in-memory sink"
				case stickyWriterClosed(fn, cc):
					o.Got = "write to a compressing writer with a sticky error whose Close is checked on this path"
				case fn.Signature.Results().Len() > 0 && !hasErrorResult(fn) && otherResultsUsed(call, idx):
					o.Got = "best-effort value in a function that cannot report errors: the non-error result is used, a failure yields the zero answer"
				case c.lastActionBeforeGivingUp(fn, call):
					o.Got = "best-effort notice: nothing of the module runs after it on any path to the exit, so no later step relies on its success"
				case strings.HasSuffix(name, ".Close") || strings.HasSuffix(name, ".SetDeadline") || strings.HasSuffix(name, ".SetReadDeadline"):
					o.Status, o.Reason, o.Got = core.Allowed, "best-effort cleanup call", "best-effort cleanup call"
				default:
					o.Status, o.Got = core.Violated, "error discarded: a failure here is reported as success"
				}
				obs = append(obs, o)
				if !used || errv == nil {
					continue
				}
				// ---- E4: a value that came with an error is not acted on before the error was looked at:
				// a branch on a sibling result of a module callee lies behind the err == nil edge
				if g := cc.StaticCallee(); g != nil && c.P.InModule(g) && call.Common().Signature().Results().Len() > 1 {
					if why := branchBeforeErrTest(call, idx, errv); why != "" {
						obs = append(obs, core.Ob{Rule: "R-ERRFLOW", Key: fmt.Sprintf("%s#%s@%d:value-before-error", fname, short, k), Pos: c.P.Pos(call.Pos()), Func: fname, Armed: armed(fn), Status: core.Violated,
							Want: "a result of " + short + " decides a branch only where its error has been found nil",
							Got:  why})
					} else {
						obs = append(obs, core.Ob{Rule: "R-ERRFLOW", Key: fmt.Sprintf("%s#%s@%d:value-before-error", fname, short, k), Pos: c.P.Pos(call.Pos()), Func: fname, Armed: armed(fn), Status: core.OK,
							Want: "a result of " + short + " decides a branch only where its error has been found nil"})
					}
				}
				// ---- E3: a short read is not forgiven: the error of io.ReadFull / io.ReadAtLeast / io.CopyN
				// (io.EOF there means "nothing arrived although something was expected") is not compared
				// with io.EOF on a path that then returns a nil error
				// ... and likewise the error of one of the module's own decoders: where their input ends
				// on a boundary between two items they pass a bare io.EOF up from any depth of the document
				modDecoder := false
				if g := cc.StaticCallee(); g != nil && c.P.InModule(g) && len(g.Blocks) > 0 {
					modDecoder = true
				}
				if exactRead(cc) || modDecoder {
					ne := 0
					for _, r := range *errv.Referrers() {
						edge := eofEdge(r, errv)
						if edge == nil {
							continue
						}
						ne++
						e3 := core.Ob{Rule: "R-ERRFLOW", Key: fmt.Sprintf("%s#%s@%d:eof-not-forgiven%d", fname, short, k, ne), Pos: c.P.Pos(instrPos(r)), Func: fname, Armed: armed(fn), Status: core.OK,
							Want: "where the error of " + short + " is found to be io.EOF (fewer bytes than asked for arrived), the function still fails"}
						if why := errEdgeReturnsNil(fn, edge, errv); why != "" {
							e3.Status, e3.Got = core.Violated, "end of input during an exact-length read is treated as success: "+why
						}
						obs = append(obs, e3)
					}
				}
				// ---- E2: err != nil edge must return a non-nil error
				for _, r := range *errv.Referrers() {
					cmp, ok := r.(*ssa.BinOp)
					if !ok || (cmp.Op != token.NEQ && cmp.Op != token.EQL) || !(isNilConst(cmp.X) || isNilConst(cmp.Y)) {
						continue
					}
					if cmp.Referrers() == nil {
						continue
					}
					for _, u := range *cmp.Referrers() {
						iff, ok := u.(*ssa.If)
						if !ok {
							continue
						}
						bb := iff.Block()
						errEdge := bb.Succs[0]
						if cmp.Op == token.EQL {
							errEdge = bb.Succs[1]
						}
						if len(errEdge.Preds) != 1 || !simpleErrorBlock(errEdge) {
							continue // merged edge or recovery logic on the error path: not the plain `if err != nil { return ... }` idiom
						}
						e2 := core.Ob{Rule: "R-ERRFLOW", Key: fmt.Sprintf("%s#%s@%d:error-edge-fails", fname, short, k), Pos: c.P.Pos(cmp.Pos()), Func: fname, Armed: armed(fn), Status: core.OK,
							Want: "on the edge where the error of " + short + " is non-nil, the function does not return a nil (or unrelated, possibly nil) error"}
						if why := errEdgeReturnsNil(fn, errEdge, errv); why != "" {
							e2.Status, e2.Got = core.Violated, why
						}
						obs = append(obs, e2)
					}
				}
			}
		}
	}
	return obs
}

// errEdgeReturnsNil walks from the error edge; at the first return reached
// on each path, the error operand must be errv, derived from errv, a fresh
// error, or a value that cannot be nil here.
func errEdgeReturnsNil(fn *ssa.Function, start *ssa.BasicBlock, errv ssa.Value) string {
	errIdx := -1
	res := fn.Signature.Results()
	for i := res.Len() - 1; i >= 0; i-- {
		if types.Identical(res.At(i).Type(), errType) {
			errIdx = i
			break
		}
	}
	if errIdx < 0 {
		return "" // the function does not return an error: handled by its own logic
	}
	seen := map[*ssa.BasicBlock]bool{}
	var bad string
	var walk func(b *ssa.BasicBlock, from *ssa.BasicBlock, depth int)
	walk = func(b *ssa.BasicBlock, from *ssa.BasicBlock, depth int) {
		if seen[b] || depth > 6 || bad != "" {
			return
		}
		seen[b] = true
		for _, in := range b.Instrs {
			switch x := in.(type) {
			case *ssa.Return:
				v := x.Results[errIdx]
				if ph, ok := v.(*ssa.Phi); ok && ph.Block() == b && from != nil {
					for i, p := range b.Preds {
						if p == from {
							v = ph.Edges[i]
						}
					}
				}
				if !nonNilErrorFrom(v, errv, 0) {
					bad = "a return on the error path yields " + describeErr(v) + ", which may be nil: the failure is reported as success"
				}
				return
			case *ssa.Panic:
				return
			case *ssa.Call:
				// retry / continue patterns: a new call of the same callee re-assigns the error
				if x == errv || (func() bool { ex, ok := errv.(*ssa.Extract); return ok && ex.Tuple == ssa.Value(x) })() {
					return
				}
			}
		}
		for _, s := range b.Succs {
			walk(s, b, depth+1)
		}
	}
	walk(start, nil, 0)
	return bad
}

// simpleErrorBlock: the block is the plain failure idiom: it ends in a return
// and makes no call other than error construction / formatting.
func simpleErrorBlock(b *ssa.BasicBlock) bool {
	hasRet := false
	for _, in := range b.Instrs {
		switch x := in.(type) {
		case *ssa.Return:
			hasRet = true
		case ssa.CallInstruction:
			n := calleeName(x.Common())
			if !(n == "errors.New" || n == "fmt.Errorf" || strings.HasPrefix(n, "fmt.Sprint") || strings.HasPrefix(n, "strconv.") || n == "errors.Join") {
				// constructors of module error types are fine as long as they get the error
				if sc := x.Common().StaticCallee(); sc == nil || len(sc.Blocks) == 0 {
					return false
				}
				return false
			}
		}
	}
	return hasRet
}

func describeErr(v ssa.Value) string {
	if isNilConst(v) {
		return "the constant nil"
	}
	return "`" + v.String() + "`"
}

// nonNilErrorFrom: v is errv, wraps errv, or is a freshly constructed error.
func nonNilErrorFrom(v, errv ssa.Value, depth int) bool {
	if depth > 6 {
		return false
	}
	if v == errv {
		return true
	}
	switch x := v.(type) {
	case *ssa.Const:
		return !x.IsNil()
	case *ssa.MakeInterface:
		return true // a concrete value boxed into error: non-nil interface
	case *ssa.ChangeInterface:
		return nonNilErrorFrom(x.X, errv, depth+1)
	case *ssa.Call:
		n := calleeName(x.Common())
		if n == "errors.New" || n == "fmt.Errorf" || n == "errors.Join" {
			return true
		}
		// a constructor that receives the error
		for _, a := range x.Common().Args {
			if a == errv {
				return true
			}
			if mi, ok := a.(*ssa.MakeInterface); ok && mi.X == errv {
				return true
			}
		}
		return false
	case *ssa.Phi:
		for _, e := range x.Edges {
			if !nonNilErrorFrom(e, errv, depth+1) {
				return false
			}
		}
		return true
	case *ssa.UnOp:
		// load of the named result / local err variable: every store into it that can reach must be non-nil;
		// approximated: the variable has a store of errv (err = <call>) — the usual named-result idiom
		if al, ok := x.X.(*ssa.Alloc); ok && al.Referrers() != nil {
			// the named result / local error variable: the store that reaches this
			// load in the same block must be non-nil; else the variable must hold errv
			var lastInBlock *ssa.Store
			for _, in := range x.Block().Instrs {
				if in == ssa.Instruction(x) {
					break
				}
				if st, ok := in.(*ssa.Store); ok && st.Addr == ssa.Value(al) {
					lastInBlock = st
				}
			}
			if lastInBlock != nil {
				return nonNilErrorFrom(lastInBlock.Val, errv, depth+1)
			}
			for _, r := range *al.Referrers() {
				if st, ok := r.(*ssa.Store); ok && st.Addr == ssa.Value(al) && st.Val == errv {
					return true
				}
			}
		}
		if g, ok := x.X.(*ssa.Global); ok && strings.HasPrefix(g.Name(), "Err") {
			return true
		}
	case *ssa.Extract:
		// the error of another call made on the error path (e.g. a nested cleanup): unknown
		return false
	}
	return false
}

// deferredCompletion: the deferred call is Flush on a *bufio.Writer or Close/Flush on a compressing writer.
func deferredCompletion(df *ssa.Defer) string {
	cc := df.Common()
	if errResultIndex(df) < 0 {
		return ""
	}
	var recv types.Type
	name := ""
	if cc.IsInvoke() {
		return ""
	}
	g := cc.StaticCallee()
	if g == nil || g.Signature.Recv() == nil {
		// a bound method value: defer w.Flush() compiles to a static call with the receiver as first argument
		return ""
	}
	recv, name = g.Signature.Recv().Type(), g.Name()
	switch recv.String() {
	case "*bufio.Writer", "*bufio.ReadWriter":
		if name == "Flush" {
			return "(*bufio.Writer).Flush"
		}
	case "*compress/zlib.Writer", "*compress/gzip.Writer", "*compress/flate.Writer":
		if name == "Close" || name == "Flush" {
			return "(" + recv.String() + ")." + name
		}
	}
	return ""
}

// exactRead: io.ReadFull, io.ReadAtLeast, io.CopyN.
func exactRead(cc *ssa.CallCommon) bool {
	g := cc.StaticCallee()
	if g == nil || g.Pkg == nil || g.Pkg.Pkg.Path() != "io" || g.Signature.Recv() != nil {
		return false
	}
	return g.Name() == "ReadFull" || g.Name() == "ReadAtLeast" || g.Name() == "CopyN"
}

// eofEdge: r compares errv with io.EOF (==, != or errors.Is) and feeds a branch;
// returns the block entered when the error IS io.EOF.
func eofEdge(r ssa.Instruction, errv ssa.Value) *ssa.BasicBlock {
	isEOF := func(v ssa.Value) bool {
		ld, ok := v.(*ssa.UnOp)
		if !ok || ld.Op != token.MUL {
			return false
		}
		g, ok := ld.X.(*ssa.Global)
		return ok && g.Pkg != nil && g.Pkg.Pkg.Path() == "io" && g.Name() == "EOF"
	}
	var cond ssa.Value
	eq := true
	switch x := r.(type) {
	case *ssa.BinOp:
		if (x.Op != token.EQL && x.Op != token.NEQ) || !(isEOF(x.X) || isEOF(x.Y)) {
			return nil
		}
		cond, eq = x, x.Op == token.EQL
	case *ssa.Call:
		g := x.Common().StaticCallee()
		if g == nil || g.Pkg == nil || g.Pkg.Pkg.Path() != "errors" || g.Name() != "Is" || len(x.Common().Args) != 2 || !isEOF(x.Common().Args[1]) {
			return nil
		}
		cond = x
	default:
		return nil
	}
	refs := cond.Referrers()
	if refs == nil {
		return nil
	}
	for _, u := range *refs {
		if iff, ok := u.(*ssa.If); ok {
			if eq {
				return iff.Block().Succs[0]
			}
			return iff.Block().Succs[1]
		}
	}
	return nil
}

// branchBeforeErrTest: some branch whose condition is computed from a non-error result of the call
// is reachable without the call's error having been found nil ("" if none, or if the error is never tested).
func branchBeforeErrTest(call *ssa.Call, errIdx int, errv ssa.Value) string {
	if errv == nil || errv.Referrers() == nil || call.Referrers() == nil {
		return ""
	}
	// the err == nil edges
	var okEdges []*ssa.BasicBlock
	for _, r := range *errv.Referrers() {
		cmp, ok := r.(*ssa.BinOp)
		if !ok || (cmp.Op != token.NEQ && cmp.Op != token.EQL) || !(isNilConst(cmp.X) || isNilConst(cmp.Y)) || cmp.Referrers() == nil {
			continue
		}
		for _, u := range *cmp.Referrers() {
			if iff, ok := u.(*ssa.If); ok {
				if cmp.Op == token.NEQ {
					okEdges = append(okEdges, iff.Block().Succs[1])
				} else {
					okEdges = append(okEdges, iff.Block().Succs[0])
				}
			}
		}
	}
	if len(okEdges) == 0 {
		return ""
	}
	behindOK := func(b *ssa.BasicBlock) bool {
		for _, e := range okEdges {
			if e == b || e.Dominates(b) {
				return true
			}
		}
		return false
	}
	for _, r := range *call.Referrers() {
		ex, ok := r.(*ssa.Extract)
		if !ok || ex.Index == errIdx || ex.Referrers() == nil {
			continue
		}
		var conds []ssa.Value
		for _, u := range *ex.Referrers() {
			switch x := u.(type) {
			case *ssa.BinOp:
				conds = append(conds, x)
			case *ssa.Convert:
				if x.Referrers() != nil {
					for _, w := range *x.Referrers() {
						if bo, ok := w.(*ssa.BinOp); ok {
							conds = append(conds, bo)
						}
					}
				}
			}
		}
		for _, cv := range conds {
			bo := cv.(*ssa.BinOp)
			switch bo.Op {
			case token.EQL, token.NEQ, token.LSS, token.LEQ, token.GTR, token.GEQ:
			default:
				continue
			}
			if bo.Referrers() == nil {
				continue
			}
			for _, w := range *bo.Referrers() {
				iff, ok := w.(*ssa.If)
				if !ok {
					continue
				}
				if !behindOK(iff.Block()) {
					return "a branch on result " + ex.Name() + " is taken before the error of the same call has been tested: on failure the zero value decides (e.g. reads as the end marker)"
				}
			}
		}
	}
	return ""
}
