package rules

import (
	"strings"

	"gmcheck/core"
)

func init() {
	Props["C05"] = PropDef{
		Explanation: "T-VARLEN: Len() of VarInt/VarLong equals the LEB128 length of the two's-complement pattern and equals the byte count WriteToBytes returns (decided by evaluating the integer control skeleton at every breakpoint of the code and of the LEB128 length function); WriteTo emits exactly vi[:n]; the decode loops read at most MaxVarIntLen / MaxVarLongLen bytes. Not decided: the emitted bit pattern and the decoded value (shift/mask arithmetic over run-time values).",
		Run: func(c *Ctx) []core.Ob {
			obs := c.VarLen()
			obs = append(obs, filterObs(c.BitFields("net/packet"), func(o core.Ob) bool { return strings.Contains(o.Key, "VarInt") || strings.Contains(o.Key, "VarLong") })...)
			obs = append(obs, c.GroupOrder("net/packet")...)
			obs = append(obs, filterObs(c.NoReadAhead(), func(o core.Ob) bool { return strings.Contains(o.Key, "packet") || o.Key == "scope" })...)
			return obs
		},
	}
	Props["C14"] = PropDef{
		Explanation: "T-REGIDX: every access of the [32][32] offsets/Timestamps tables is indexed [z][x], the orientation setHead (4*(z*32+x)) and the flat big-endian transfer in Load/CreateWriter use on disk. R-ORDER: the over-limit refusal dominates every state change and file write of WriteSector; every in-memory header update is followed by setHead; Load's occupancy scan visits every entry; the free-space search accepts a position only after looking up every sector it needs. R-TLG: the declared chunk length in ReadSector is sign- and range-checked before allocation. Not decided: disjointness of live sector runs over all histories, first-fit search, read-back equality.",
		Run: func(c *Ctx) []core.Ob {
			obs := c.RegionIndex()
			obs = append(obs, c.RegionOrder()...)
			obs = append(obs, c.RegionFindSpace()...)
			obs = append(obs, c.RegionSlotOffsets()...)
			obs = append(obs, c.TableLoopsCover("save/region")...)
			obs = append(obs, c.SignedNarrowing("save/region")...)
			in := pkgPred("save/region")
			obs = append(obs, c.TLGObs(in, in, false)...)
			obs = append(obs, c.ErrFlow(in, in)...)
			return obs
		},
	}
	Props["C15"] = PropDef{
		Explanation: "R-ORIGIN: only CreateWriter/WriteSector/PadToFullSector/writeAt write the backing file; WriteSector's data write is positioned only from this chunk's own header slot or from findSpace; setHead receives WriteSector's own (x, z). R-ORDER: header update mirrored to disk; Load rebuilds occupancy from every header entry; the free-space search looks up every sector of a run before accepting it. A necessary condition of crash isolation (no physical write is addressed by another chunk's slot). Not decided: that the chosen run is free in every reachable allocation state and crash prefix.",
		Run: func(c *Ctx) []core.Ob {
			obs := c.RegionOrigin()
			for _, o := range c.RegionOrder() {
				switch o.Key {
				case "region:setHead-own-coordinates", "region:header-mirrored", "region:load-visits-every-entry", "region:refusal-before-mutation", "region:occupancy-change-mirrored":
					obs = append(obs, o)
				}
			}
			obs = append(obs, c.RegionFindSpace()...)
			return obs
		},
	}
	Props["C16"] = PropDef{
		Explanation: "T-RCONFRAME: the writer's length field counts exactly the fixed bytes that follow (4+4+2) plus the payload, and the reader's minimum, slice offsets and trailer equal the writer's constants; T-ENDIAN: little-endian on both sides. R-TLG: the declared length is proven in [10, MaxRCONPackageSize] at the allocation and at every slice expression. R-POLARITY: AcceptLogin succeeds only on the password-equal edge (echoing the id) and fails with id -1 otherwise; DialRCON and Resp accept only the request id in use. Not decided: payload equality, writer-side size limit.",
		Run: func(c *Ctx) []core.Ob {
			obs := c.RCONFrame()
			obs = append(obs, c.RCONPolarity()...)
			obs = append(obs, c.RCONReqID()...)
			obs = append(obs, c.RCONWriterLimit()...)
			obs = append(obs, filterObs(c.RawRead(), func(o core.Ob) bool { return strings.HasPrefix(o.Key, "net.") })...)
			obs = append(obs, filterObs(c.NoReadAhead(), func(o core.Ob) bool { return o.Key != "scope" || true })...)
			in := c.reachFromTypes("net", []string{"RCONConn"}, "DialRCON")
			obs = append(obs, c.TLGObs(in, in, false)...)
			return obs
		},
	}
	Props["C18"] = PropDef{
		Explanation: "R-POLARITY + R-ORIGIN: VerifySignature returns true only when rsa.VerifyPKCS1v15 returned nil and the key operand is the package-level key parsed from the embedded DER; PublicKey.Verify returns that verdict or false. Not decided: the offline UUID value, the session-hash value and the equality of the two authDigest copies (value-level arithmetic).",
		Run: func(c *Ctx) []core.Ob {
			obs := c.SignaturePolarity()
			obs = append(obs, c.OfflineUUIDInputs()...)
			obs = append(obs, c.SignatureHashOrder()...)
			obs = append(obs, c.BitFields("offline")...)
			obs = append(obs, c.RippleCarry("bot", "server/auth")...)
			obs = append(obs, c.TrustAnchorImmutable("yggdrasil/user")...)
			obs = append(obs, c.FixedBufferCopies("offline", "yggdrasil/user", "bot", "server/auth")...)
			return obs
		},
	}
}
