package rules

// R-NOMUT, R-MARSHALER, R-NOBUF (C01, C02, C17).

import (
	"fmt"
	"go/types"
	"reflect"
	"sort"
	"strings"

	"gmcheck/core"

	"golang.org/x/tools/go/ssa"
)

// createdHere: the reflect.Value v was produced by reflect.New / MakeSlice /
// MakeMap / Zero / Indirect-of-those inside the same function.
func createdHere(v ssa.Value, depth int) bool {
	if depth > 6 {
		return false
	}
	switch x := v.(type) {
	case *ssa.Call:
		n := calleeName(x.Common())
		switch n {
		case "reflect.New", "reflect.MakeSlice", "reflect.MakeMap", "reflect.MakeMapWithSize", "reflect.Zero":
			return true
		case "reflect.(Value).Elem", "reflect.(Value).Index", "reflect.(Value).Field", "reflect.Indirect":
			if len(x.Common().Args) > 0 {
				return createdHere(x.Common().Args[0], depth+1)
			}
		}
	case *ssa.Phi:
		for _, e := range x.Edges {
			if !createdHere(e, depth+1) {
				return false
			}
		}
		return len(x.Edges) > 0
	case *ssa.UnOp:
		// load of a local holding a created value
		if al, ok := x.X.(*ssa.Alloc); ok {
			if refs := al.Referrers(); refs != nil {
				all := true
				n := 0
				for _, r := range *refs {
					if st, ok := r.(*ssa.Store); ok && st.Addr == ssa.Value(al) {
						n++
						if !createdHere(st.Val, depth+1) {
							all = false
						}
					}
				}
				return all && n > 0
			}
		}
	}
	return false
}

// NoMutation implements R-NOMUT: the encoder never writes through the value it
// is asked to encode.
func (c *Ctx) NoMutation() []core.Ob {
	roots := []string{"nbt.(*Encoder).Encode", "nbt.Marshal"}
	var rs []*ssa.Function
	var obs []core.Ob
	for _, n := range roots {
		if f := c.Fn(n); f != nil {
			rs = append(rs, f)
		} else {
			obs = append(obs, core.Ob{Rule: "R-NOMUT", Key: "root:" + n, Status: core.Violated, Armed: true, Want: "encoder entry point exists", Got: "not found"})
		}
	}
	reach := c.Reach(rs, func(g *ssa.Function) bool { return inPkgs(g, "nbt") })
	var fns []*ssa.Function
	seen := map[*ssa.Function]bool{}
	for f := range reach {
		f = core.Origin(f)
		if !seen[f] {
			seen[f] = true
			fns = append(fns, f)
		}
	}
	sort.Slice(fns, func(i, j int) bool { return core.FnName(fns[i]) < core.FnName(fns[j]) })
	nFn := 0
	for _, fn := range fns {
		// only the encoding side: functions of the decoder are reachable through Marshaler callbacks
		name := core.FnName(fn)
		if strings.Contains(name, "Decoder") || strings.Contains(name, "Unmarshal") || strings.Contains(name, "indirect") {
			continue
		}
		nFn++
		k := 0
		for _, b := range fn.Blocks {
			for _, in := range b.Instrs {
				call, ok := in.(*ssa.Call)
				if !ok {
					continue
				}
				n := calleeName(call.Common())
				if !strings.HasPrefix(n, "reflect.(Value).Set") {
					continue
				}
				k++
				o := core.Ob{Rule: "R-NOMUT", Key: fmt.Sprintf("%s#%s%d", name, n[strings.LastIndex(n, ".")+1:], k), Pos: c.P.Pos(call.Pos()), Func: name, Armed: true, Status: core.OK,
					Want: "encoding performs no reflect.Value.Set* on the value being encoded (only on values the encoder created itself)"}
				if !createdHere(call.Common().Args[0], 0) {
					o.Status = core.Violated
					o.Got = "writes through the caller's value (panics on unaddressable input, mutates addressable input)"
				}
				obs = append(obs, o)
			}
		}
	}
	obs = append(obs, core.Ob{Rule: "R-NOMUT", Key: "scope", Armed: true, Status: core.OK, Want: "encoder functions reachable from Encode/Marshal are analysed",
		Got: fmt.Sprintf("%d functions of package nbt", nFn)})
	if nFn < 5 {
		obs[len(obs)-1].Status = core.Violated
	}
	return obs
}

// implementers of MarshalNBT / UnmarshalNBT in the module
func (c *Ctx) methodsNamed(name string) []*ssa.Function {
	var out []*ssa.Function
	for _, fn := range c.Funcs() {
		if fn.Parent() == nil && fn.Signature.Recv() != nil && fn.Name() == name {
			out = append(out, fn)
		}
	}
	return out
}

// derivesFromValue: v is reached from target through conversions, interface
// boxing, field stores into fresh composite literals (wrappers) and calls that
// take it as an argument (constructors of wrappers).
func derivesFromValue(v ssa.Value, target ssa.Value, depth int) bool {
	if v == target {
		return true
	}
	if depth > 8 {
		return false
	}
	switch x := v.(type) {
	case *ssa.MakeInterface:
		return derivesFromValue(x.X, target, depth+1)
	case *ssa.ChangeInterface:
		return derivesFromValue(x.X, target, depth+1)
	case *ssa.ChangeType:
		return derivesFromValue(x.X, target, depth+1)
	case *ssa.Call:
		for _, a := range x.Common().Args {
			if derivesFromValue(a, target, depth+1) {
				return true
			}
		}
	case *ssa.Alloc:
		// &wrapper{w: target}
		if refs := x.Referrers(); refs != nil {
			for _, r := range *refs {
				if fa, ok := r.(*ssa.FieldAddr); ok {
					if rr := fa.Referrers(); rr != nil {
						for _, s := range *rr {
							if st, ok := s.(*ssa.Store); ok && derivesFromValue(st.Val, target, depth+1) {
								return true
							}
						}
					}
				}
			}
		}
	case *ssa.Phi:
		for _, e := range x.Edges {
			if derivesFromValue(e, target, depth+1) {
				return true
			}
		}
	}
	return false
}

// MarshalerContract implements R-MARSHALER.
func (c *Ctx) MarshalerContract() []core.Ob {
	var obs []core.Ob
	// (1) MarshalNBT writes a payload only
	ms := c.methodsNamed("MarshalNBT")
	for _, fn := range ms {
		if len(fn.Params) < 2 || len(fn.Blocks) == 0 {
			continue
		}
		w := fn.Params[1]
		o := core.Ob{Rule: "R-MARSHALER", Key: core.FnName(fn) + ":payload-only", Pos: c.P.Pos(fn.Pos()), Func: core.FnName(fn), Armed: !informationalPkg(fn), Status: core.OK,
			Want: "MarshalNBT(w) writes the payload only: it does not run (*nbt.Encoder).Encode (which emits a tag header) on an encoder that writes to w"}
		for _, ci := range callsIn(fn, func(n string, _ *ssa.CallCommon) bool { return strings.HasSuffix(n, "/nbt.(Encoder).Encode") }) {
			enc := ci.Common().Args[0]
			// the encoder: result of nbt.NewEncoder(X)
			if cl, ok := enc.(*ssa.Call); ok && strings.HasSuffix(calleeName(cl.Common()), "/nbt.NewEncoder") {
				if derivesFromValue(cl.Common().Args[0], w, 0) {
					o.Status = core.Violated
					o.Got = "Encode on nbt.NewEncoder(w): the value is emitted with a second tag header inside its parent"
					o.Pos = c.P.Pos(ci.Pos())
				}
			} else {
				o.Status, o.Got = core.Violated, "Encode on an encoder of unknown origin"
			}
		}
		obs = append(obs, o)
	}
	if len(ms) < 4 {
		obs = append(obs, core.Ob{Rule: "R-MARSHALER", Key: "marshalers", Status: core.Violated, Armed: true, Want: ">= 4 MarshalNBT implementations in the module", Got: fmt.Sprint(len(ms))})
	}
	// (2) UnmarshalNBT that delegates to Decoder.Decode re-injects the tag type
	for _, fn := range c.methodsNamed("UnmarshalNBT") {
		if len(fn.Params) < 3 || len(fn.Blocks) == 0 {
			continue
		}
		decs := callsIn(fn, func(n string, _ *ssa.CallCommon) bool { return strings.HasSuffix(n, "/nbt.(Decoder).Decode") })
		if len(decs) == 0 {
			continue
		}
		o := core.Ob{Rule: "R-MARSHALER", Key: core.FnName(fn) + ":reinjects-tag", Pos: c.P.Pos(fn.Pos()), Func: core.FnName(fn), Armed: !informationalPkg(fn), Status: core.OK,
			Want: "an UnmarshalNBT(tagType, r) that delegates to (*Decoder).Decode puts tagType back in front of r (io.MultiReader) and switches the decoder to network format"}
		for _, ci := range decs {
			dec := ci.Common().Args[0]
			cl, ok := dec.(*ssa.Call)
			// the function that builds the decoder, and what the tag / reader parameters are called there
			scope := fn
			tagV, rV := ssa.Value(fn.Params[1]), ssa.Value(fn.Params[2])
			if ok && !strings.HasSuffix(calleeName(cl.Common()), "/nbt.NewDecoder") {
				// a helper that builds it: newTagDecoder(tagType, r)
				if g := cl.Common().StaticCallee(); g != nil && c.P.InModule(g) && len(g.Blocks) > 0 {
					var inner *ssa.Call
					n := 0
					for _, b := range g.Blocks {
						for _, in := range b.Instrs {
							if r, isRet := in.(*ssa.Return); isRet && len(r.Results) == 1 {
								n++
								if ic, isCall := r.Results[0].(*ssa.Call); isCall && strings.HasSuffix(calleeName(ic.Common()), "/nbt.NewDecoder") {
									inner = ic
								} else {
									inner = nil
								}
							}
						}
					}
					if n == 1 && inner != nil {
						var nt, nr ssa.Value
						for i, a := range cl.Common().Args {
							if i >= len(g.Params) {
								break
							}
							if a == tagV {
								nt = g.Params[i]
							}
							if a == rV {
								nr = g.Params[i]
							}
						}
						if nt != nil && nr != nil {
							cl, scope, tagV, rV = inner, g, nt, nr
						}
					}
				}
			}
			if !ok || !strings.HasSuffix(calleeName(cl.Common()), "/nbt.NewDecoder") {
				o.Status, o.Got = core.Violated, "Decode on a decoder of unknown origin"
				continue
			}
			src := cl.Common().Args[0]
			multi := false
			var mr *ssa.Call
			if mi, ok := src.(*ssa.MakeInterface); ok {
				src = mi.X
			}
			if m, ok := src.(*ssa.Call); ok && calleeName(m.Common()) == "io.MultiReader" {
				multi, mr = true, m
			} else if ok {
				// a helper that builds the combined reader: prependTagType(tagType, r)
				if g := m.Common().StaticCallee(); g != nil && c.P.InModule(g) && len(g.Blocks) > 0 {
					var inner *ssa.Call
					nret := 0
					for _, b := range g.Blocks {
						for _, in := range b.Instrs {
							if r, isRet := in.(*ssa.Return); isRet && len(r.Results) == 1 {
								nret++
								rv := r.Results[0]
								if mi, isMI := rv.(*ssa.MakeInterface); isMI {
									rv = mi.X
								}
								if ic, isCall := rv.(*ssa.Call); isCall && calleeName(ic.Common()) == "io.MultiReader" {
									inner = ic
								} else {
									inner = nil
								}
							}
						}
					}
					if nret == 1 && inner != nil {
						var nt, nr ssa.Value
						for i, a := range m.Common().Args {
							if i >= len(g.Params) {
								break
							}
							if a == tagV {
								nt = g.Params[i]
							}
							if a == rV {
								nr = g.Params[i]
							}
						}
						if nt != nil && nr != nil {
							multi, mr, tagV, rV = true, inner, nt, nr
						}
					}
				}
			}
			if !multi {
				o.Status, o.Got = core.Violated, "the decoder reads r directly: the tag type byte already consumed by the caller is lost"
				continue
			}
			// the variadic slice must mention both the tag parameter (through bytes.NewReader([]byte{tagType})) and r
			usesTag, usesR := false, false
			var walk func(v ssa.Value, d int)
			seen := map[ssa.Value]bool{}
			walk = func(v ssa.Value, d int) {
				if v == nil || seen[v] || d > 12 {
					return
				}
				seen[v] = true
				if v == tagV {
					usesTag = true
				}
				if v == rV {
					usesR = true
				}
				if in, ok := v.(ssa.Instruction); ok {
					for _, op := range in.Operands(nil) {
						if *op != nil {
							walk(*op, d+1)
						}
					}
				}
				if al, ok := v.(*ssa.Alloc); ok {
					if refs := al.Referrers(); refs != nil {
						for _, r := range *refs {
							switch x := r.(type) {
							case *ssa.IndexAddr:
								if rr := x.Referrers(); rr != nil {
									for _, s := range *rr {
										if st, ok := s.(*ssa.Store); ok {
											walk(st.Val, d+1)
										}
									}
								}
							case *ssa.Store:
								walk(x.Val, d+1)
							}
						}
					}
				}
			}
			walk(mr.Common().Args[0], 0)
			nf := false
			for _, sf := range []*ssa.Function{fn, scope} {
				for _, n := range callsIn(sf, func(n string, _ *ssa.CallCommon) bool { return strings.HasSuffix(n, "/nbt.(Decoder).NetworkFormat") }) {
					if k, ok := n.Common().Args[1].(*ssa.Const); ok && k.Value != nil && k.Value.String() == "true" {
						nf = true
					}
				}
			}
			if !usesTag || !usesR || !nf {
				o.Status, o.Got = core.Violated, fmt.Sprintf("MultiReader mentions tagType=%v r=%v, NetworkFormat(true)=%v", usesTag, usesR, nf)
			}
		}
		obs = append(obs, o)
	}
	// (3) interface-kind fields of NBT-tagged structs are omitempty
	obs = append(obs, c.interfaceFieldsOmitEmpty()...)
	return obs
}

func (c *Ctx) interfaceFieldsOmitEmpty() []core.Ob {
	var obs []core.Ob
	n := 0
	for _, pk := range c.P.Pkgs {
		if !inRel(core.Rel(pk.PkgPath), "chat", "registry", "save", "level") {
			continue
		}
		sc := pk.Types.Scope()
		for _, name := range sc.Names() {
			tn, ok := sc.Lookup(name).(*types.TypeName)
			if !ok {
				continue
			}
			st, ok := tn.Type().Underlying().(*types.Struct)
			if !ok {
				continue
			}
			for i := 0; i < st.NumFields(); i++ {
				f := st.Field(i)
				tag, has := reflect.StructTag(st.Tag(i)).Lookup("nbt")
				if !has || tag == "-" || !f.Exported() {
					continue
				}
				if _, isIface := f.Type().Underlying().(*types.Interface); !isIface {
					continue
				}
				// types with their own marshaler are not plain interface values
				n++
				o := core.Ob{Rule: "R-MARSHALER", Key: core.Rel(pk.PkgPath) + "." + name + "." + f.Name() + ":omitempty", Pos: c.P.Pos(f.Pos()), Armed: true, Status: core.OK,
					Want: "an interface-typed field of an NBT-encoded struct is tagged omitempty (a nil interface has no tag type and makes every encode fail)"}
				opts := strings.Split(tag, ",")[1:]
				okOmit := false
				for _, op := range opts {
					if op == "omitempty" {
						okOmit = true
					}
				}
				if !okOmit {
					o.Status, o.Got = core.Violated, "tag `nbt:\""+tag+"\"` lacks omitempty: a value with this field unset cannot be encoded"
				}
				obs = append(obs, o)
			}
		}
	}
	return obs
}

func inRel(rel string, pkgs ...string) bool {
	for _, p := range pkgs {
		if rel == p {
			return true
		}
	}
	return false
}

// NoReadAhead implements R-NOBUF.
func (c *Ctx) NoReadAhead() []core.Ob {
	var obs []core.Ob
	rootNames := []string{"nbt.(*Decoder).Decode", "nbt.NewDecoder", "nbt.(*RawMessage).UnmarshalNBT", "nbt.(*StringifiedMessage).UnmarshalNBT", "nbt/dynbt.(*Value).UnmarshalNBT",
		"net/packet.(*Packet).UnPack", "net.(*RCONConn).ReadPacket", "net/packet.(NBTField).ReadFrom", "net/packet.(*VarInt).ReadFrom", "net/packet.(*VarLong).ReadFrom"}
	var rs []*ssa.Function
	for _, n := range rootNames {
		f := c.Fn(n)
		if f == nil {
			obs = append(obs, core.Ob{Rule: "R-NOBUF", Key: "root:" + n, Status: core.Violated, Armed: true, Want: "decode root exists", Got: "not found"})
			continue
		}
		rs = append(rs, c.instancesOf(f)...)
	}
	reach := c.Reach(rs, func(g *ssa.Function) bool { return inPkgs(g, "nbt", "nbt/dynbt", "net/packet", "net") })
	buffering := map[string]bool{"bufio.NewReader": true, "bufio.NewReaderSize": true, "io.ReadAll": true, "bytes.(Buffer).ReadFrom": true, "io.Copy": true, "io.CopyBuffer": true, "bufio.NewScanner": true, "io/ioutil.ReadAll": true}
	// named exception: reads a per-packet bytes.Reader to its end, not the stream
	exception := map[string]string{"net/packet.(*PluginMessageData).ReadFrom": "reads the rest of a per-packet in-memory reader (Packet.Scan), by definition of the field"}
	seen := map[*ssa.Function]bool{}
	var fns []*ssa.Function
	for f := range reach {
		f = core.Origin(f)
		if !seen[f] {
			seen[f] = true
			fns = append(fns, f)
		}
	}
	sort.Slice(fns, func(i, j int) bool { return core.FnName(fns[i]) < core.FnName(fns[j]) })
	nCalls := 0
	for _, fn := range fns {
		k := 0
		for _, ci := range callsIn(fn, func(n string, _ *ssa.CallCommon) bool { return buffering[n] }) {
			k++
			nCalls++
			o := core.Ob{Rule: "R-NOBUF", Key: fmt.Sprintf("%s#%s%d", core.FnName(fn), calleeName(ci.Common()), k), Pos: c.P.Pos(ci.Pos()), Func: core.FnName(fn), Armed: true,
				Status: core.Violated, Want: "decoding reads exactly what it needs from the source stream (io.ReadFull, ReadByte, io.CopyN, binary.Read): no buffering reader, no read-to-EOF",
				Got: calleeName(ci.Common()) + " on a decode path may consume bytes beyond the value", Path: chainString(reach[fn])}
			if why, ok := exception[core.FnName(fn)]; ok {
				o.Status, o.Reason, o.Got = core.Allowed, why, why
			}
			obs = append(obs, o)
		}
	}
	obs = append(obs, core.Ob{Rule: "R-NOBUF", Key: "scope", Armed: true, Status: core.OK, Want: "decode paths analysed",
		Got: fmt.Sprintf("%d functions reachable from %d roots, %d buffering calls", len(fns), len(rs), nCalls)})
	if len(fns) < 15 {
		obs[len(obs)-1].Status = core.Violated
	}
	// NewDecoder wraps a plain reader in the byte-at-a-time adapter
	nd := c.Fn("nbt.NewDecoder")
	if nd != nil {
		o := core.Ob{Rule: "R-NOBUF", Key: "nbt.NewDecoder:byte-adapter", Pos: c.P.Pos(nd.Pos()), Func: "nbt.NewDecoder", Armed: true, Status: core.OK,
			Want: "a reader without ReadByte is wrapped in a one-byte-at-a-time adapter declared in package nbt (never in a buffering reader)"}
		okAdapter := false
		// in NewDecoder itself or in a helper of the package it delegates the wrapping to
		for _, g := range c.withPkgCallees(nd, 2) {
			for _, b := range g.Blocks {
				for _, in := range b.Instrs {
					if mi, ok := in.(*ssa.MakeInterface); ok {
						if n, ok := types.Unalias(mi.X.Type()).(*types.Named); ok && n.Obj().Pkg() != nil && n.Obj().Pkg().Path() == nbtPath {
							okAdapter = true
						}
					}
				}
			}
		}
		if !okAdapter {
			o.Status, o.Got = core.Violated, "no adapter type of package nbt is installed"
		}
		obs = append(obs, o)
	}
	return obs
}

// ListProgress implements the progress clause of C03 for decoders whose
// dispatch treats TagEnd as a value that consumes no input (dynbt.Value): a
// count-bounded loop that decodes elements of a peer-chosen tag must be
// unreachable when that tag is TagEnd - otherwise a list of TagEnd with a huge
// count spins without reading a byte.
func (c *Ctx) ListProgress() []core.Ob {
	var obs []core.Ob
	t := c.TLG()
	// the decoder entry is the interface method (*Value).UnmarshalNBT; the element loop may live in it
	// or in a helper it has been moved to: every function of the package is searched
	entry := c.Fn("nbt/dynbt.(*Value).UnmarshalNBT")
	if entry == nil {
		return append(obs, core.Ob{Rule: "R-PROGRESS", Key: "nbt/dynbt.(*Value).UnmarshalNBT", Status: core.Violated, Armed: true, Want: "decoder exists", Got: "not found"})
	}
	k := 0
	for _, fn := range c.Funcs() {
		if !inPkgs(fn, "nbt/dynbt") {
			continue
		}
		name := core.FnName(fn)
		for _, lp := range naturalLoops(fn) {
			for b := range lp.body {
				for _, in := range b.Instrs {
					call, ok := in.(*ssa.Call)
					if !ok {
						continue
					}
					sc := call.Common().StaticCallee()
					if sc == nil || core.Origin(sc) != entry || len(call.Common().Args) < 2 {
						continue
					}
					tag := call.Common().Args[1]
					if _, isConst := tag.(*ssa.Const); isConst {
						continue
					}
					// only loops bounded by a count (the compound loop reads a tag header each round)
					if _, isIf := lp.header.Instrs[len(lp.header.Instrs)-1].(*ssa.If); !isIf {
						continue
					}
					k++
					o := core.Ob{Rule: "R-PROGRESS", Key: fmt.Sprintf("nbt/dynbt:element-loop%d", k), Pos: c.P.Pos(call.Pos()), Func: name, Armed: true, Status: core.OK,
						Want: "the count-bounded element loop is unreachable when the element tag is TagEnd (whose decoding consumes no input): a TagEnd list with a positive count is rejected"}
					reached := false
					assume := map[ssa.Value]AV{tag: {T: ivOf(0, 0)}}
					// the tag and the count come out of one helper (elemType, n, err := readListHeader(r)): what
					// can the helper hand back for the count, without an error, when the tag it read is TagEnd?
					if ex, ok := tag.(*ssa.Extract); ok {
						if hc, ok := ex.Tuple.(*ssa.Call); ok && hc.Referrers() != nil {
							if g := hc.Common().StaticCallee(); g != nil && c.P.InModule(g) && len(g.Blocks) > 0 {
								if rv := sameReturnedValue(g, ex.Index); rv != nil {
									if okRes := t.OKResultsAssuming(core.Origin(g), rv, AV{T: ivOf(0, 0)}); okRes != nil {
										for _, r := range *hc.Referrers() {
											if sib, ok := r.(*ssa.Extract); ok && sib != ex && sib.Index < len(okRes) && (okRes[sib.Index].T != nil || okRes[sib.Index].P != nil) {
												assume[sib] = okRes[sib.Index]
											}
										}
									}
								}
							}
						}
					}
					// the tag and the count are handed to a check helper (checkListHeader(elemType, n) error):
					// with the tag it is given assumed to be TagEnd, which counts does it let through?
					for _, hb := range fn.Blocks {
						for _, hin := range hb.Instrs {
							hc, ok := hin.(*ssa.Call)
							if !ok || errResultIndex(hc) < 0 {
								continue
							}
							g := hc.Common().StaticCallee()
							if g == nil || !c.P.InModule(g) || len(g.Blocks) == 0 || core.Origin(g) == entry {
								continue
							}
							ti := -1
							for i, a := range hc.Common().Args {
								if a == tag {
									ti = i
								}
							}
							if ti < 0 || ti >= len(g.Params) {
								continue
							}
							post := t.ParamPostOKAssuming(core.Origin(g), core.Origin(g).Params[ti], AV{T: ivOf(0, 0)})
							for j, a := range hc.Common().Args {
								if j == ti || j >= len(post) || (post[j].T == nil && post[j].P == nil) {
									continue
								}
								if _, isK := a.(*ssa.Const); isK {
									continue
								}
								pj := post[j]
								pj.UB = nil
								assume[a] = pj
							}
						}
					}
					t.ProbeAssumeAll(fn, assume, func(pin ssa.Instruction, eval func(ssa.Value) AV, _ func(string) (AV, bool)) {
						if pin == ssa.Instruction(call) {
							reached = true
						}
					})
					if reached {
						o.Status, o.Got = core.Violated, "with element tag 0 the loop body is reachable: it iterates the declared count without consuming input"
					}
					obs = append(obs, o)
				}
			}
		}
	}
	if k == 0 {
		obs = append(obs, core.Ob{Rule: "R-PROGRESS", Key: "nbt/dynbt:element-loop", Status: core.Violated, Armed: true, Want: "the list element loop is found", Got: "no count-bounded recursive loop found"})
	}
	return obs
}

// sameReturnedValue: the one SSA value fn returns as result idx at every return, or nil.
func sameReturnedValue(fn *ssa.Function, idx int) ssa.Value {
	var v ssa.Value
	for _, b := range fn.Blocks {
		for _, in := range b.Instrs {
			r, ok := in.(*ssa.Return)
			if !ok || idx >= len(r.Results) {
				continue
			}
			if v != nil && r.Results[idx] != v {
				return nil
			}
			v = r.Results[idx]
		}
	}
	if _, isConst := v.(*ssa.Const); isConst {
		return nil
	}
	return v
}
